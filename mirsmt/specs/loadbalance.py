"""Specs for src/connectors/loadbalance.rs.  Property C17."""
import re
import z3
from values import Int, Bool, UNIT, Agg, Ref, Opaque, Bytes, SeqV, Future, BV, simp, concrete, fresh_name
from engine import State, Unsupported
import contracts as C
import contracts_async as CA
from specs.codec import run_async, _ok_payload, _is_err_concrete
from specs.dispatch import BENIGN, traced_unit_future

NMAX = 16


def _lb(ck, ex, st):
    """symbolic LoadBalanceConnector behind &Arc<Self>, and a GlobalState whose connector map is observed through get()"""
    fields = ck.si.structs.get('LoadBalanceConnector', ['name', 'connectors', 'algorithm', 'idx', 'hash_by'])
    n = z3.BitVec('member_count', 64)
    ex.assume(st, z3.And(z3.UGE(n, BV(1, 64)), z3.ULE(n, BV(NMAX, 64))))
    F = z3.Function('member_name_byte', z3.BitVecSort(64), z3.BitVecSort(64), z3.BitVecSort(8))
    L = z3.Function('member_name_len', z3.BitVecSort(64), z3.BitVecSort(64))
    members = SeqV(lambda i: Bytes(lambda j, i=i: F(i, j), L(i), 'string'), n, None, 'String', 'vec')
    idx0 = z3.BitVec('rr_cursor', 64)
    ex.assume(st, z3.ULT(idx0, BV(1 << 62, 64)))
    lb = Agg('LoadBalanceConnector', {fields.index('name'): Bytes.symbolic('lbname', 'string'), fields.index('connectors'): members,
                                      fields.index('idx'): Agg('Atomic', {0: Int(idx0, 64)}),
                                      fields.index('hash_by'): C.mk_option(ex, Opaque('milu::script::Value', 'hash-expr'))})
    lbcell = st.alloc(lb)
    arc = st.alloc(Ref(lbcell, ()))
    state = st.alloc(Ref(st.alloc(Opaque('GlobalState', 'state')), ()))

    def vec_index(ctx):
        i = ctx.args[1].t
        ctx.ex.require(ctx.st, z3.ULT(i, n), 'index', 'member index out of bounds')
        ctx.st.trace.append(('member-index', i))
        c = ctx.st.alloc(members.at(i))
        return Ref(c, ())

    def map_get(ctx):
        key = ctx.ex.deref(ctx.st, ctx.args[1])
        ctx.st.trace.append(('connectors.get', key))
        conn = Ref(ctx.st.alloc(Ref(ctx.st.alloc(Opaque('dyn Connector', ('member', id(key)))), ())), ())
        return C.mk_option(ctx.ex, conn)
    ex.overrides.append((re.compile(r'^<Vec<(?:std::string::)?String> as (?:std::ops::)?Index<usize>>::index$'), vec_index))
    ex.overrides.append((re.compile(r'^HashMap::<(?:std::string::)?String, Arc<dyn Connector>>::get::<'), map_get))
    return dict(n=n, members=members, idx0=idx0, lbcell=lbcell, arc=arc, state=state, fields=fields, F=F, L=L)


def spec_round_robin(ck):
    fn = ck.find(lambda: ck.db.method('LoadBalanceConnector', 'round_robin'), 'LoadBalanceConnector::round_robin')
    if fn is None:
        return
    # which kind of cursor is it?  An ever-growing ticket counter (fetch_add, index = ticket mod n) is checked from ANY counter
    # value; a position kept below the member count (e.g. fetch_update(|i| (i + 1) % n)) is checked from any position < n --
    # states above that are not reachable for that design and say nothing about it.
    probe = ck.engine()
    probe.benign_havoc = BENIGN
    ps = State()
    pm = _lb(ck, probe, ps)
    counter_design = False
    for s in probe.call_fn(ps, fn, [Ref(pm['arc'], ()), Ref(pm['state'], ())]):
        if any(e[0] == 'atomic.fetch_add' for e in s.trace):
            counter_design = True
    if probe in ck.engines:
        ck.engines.remove(probe)        # the probe only classifies the design; its states are not obligations
    ex = ck.engine()
    ex.benign_havoc = BENIGN
    st = State()
    m = _lb(ck, ex, st)
    if not counter_design:
        ex.assume(st, z3.ULT(m['idx0'], m['n']))
    ex.inputs = {'member_count': m['n'], 'rr_cursor': m['idx0']}
    finals = ex.call_fn(st, fn, [Ref(m['arc'], ()), Ref(m['state'], ())])
    for s in finals:
        if s.status != 'returned':
            continue
        idxs = [e for e in s.trace if e[0] == 'member-index']
        gets = [e for e in s.trace if e[0] == 'connectors.get']
        rmw = [e for e in s.trace if e[0] == 'atomic.rmw']
        plain = [e for e in s.trace if e[0] in ('atomic.store', 'atomic.load')]
        # two requests must never get the same turn: the cursor is read and advanced by ONE atomic read-modify-write
        ex.prove(s, 'C17/round-robin/ticket-taken-by-one-atomic-fetch-add', len(rmw) == 1 and not plain)
        lb2 = s.mem[m['lbcell']]
        newc = lb2.fields[m['fields'].index('idx')].fields[0].t
        q1, r1 = ex.divmod(s, newc, m['n'])
        q2, r2 = ex.divmod(s, m['idx0'] + 1, m['n'])
        ex.prove(s, 'C17/round-robin/cursor-advances-by-one-position-modulo-member-count', z3.Or(newc == m['idx0'] + 1, r1 == r2))
        ex.prove(s, 'C17/round-robin/exactly-one-member-selected', len(idxs) == 1 and len(gets) == 1)
        if idxs:
            # ticket mod n, through the same Euclidean-division lemma the engine uses for `%` (q, r are unique)
            q_, r_ = ex.divmod(s, m['idx0'], m['n'])
            ex.prove(s, 'C17/round-robin/selected-index-is-ticket-mod-member-count', idxs[0][1] == r_)
    ck.notes.append('round robin cursor: %s' % ('ever-growing ticket counter: any counter value' if counter_design else 'not a fetch_add counter: positions below the member count'))
    # from the freshly loaded balancer (cursor at its Default), 2n consecutive requests: consecutive members, each exactly twice
    for n in (1, 2, 3):
        exh = ck.engine()
        exh.benign_havoc = BENIGN
        sh = State()
        mh = _lb(ck, exh, sh)
        exh.assume(sh, mh['n'] == BV(n, 64))
        exh.assume(sh, mh['idx0'] == BV(0, 64))
        exh.inputs = {'member_count': mh['n']}
        frontier = [sh]
        for k in range(2 * n):
            nxt = []
            for s in frontier:
                s2 = s.fork()
                s2.frames = []
                s2.status = 'running'
                nxt += [o for o in exh.call_fn(s2, fn, [Ref(mh['arc'], ()), Ref(mh['state'], ())]) if o.status == 'returned']
            frontier = nxt
        for s in frontier:
            picks = [e[1] for e in s.trace if e[0] == 'member-index']
            ok = z3.BoolVal(len(picks) == 2 * n)
            if len(picks) == 2 * n:
                ok = z3.And([picks[k] == BV(k % n, 64) for k in range(2 * n)])
            exh.prove(s, 'C17/round-robin/from-the-start-members-take-turns-in-order', ok)
        if not frontier:
            ck.add('C17/round-robin/history-reachability', 'vacuous', '%d consecutive selections never all returned (n=%d)' % (2 * n, n))
        ck.absorb(exh, 'LoadBalanceConnector::round_robin x%d (n=%d)' % (2 * n, n), None)
    ck.absorb(ex, 'LoadBalanceConnector::round_robin', finals)
    # the arithmetic residue law that turns "index = ticket mod n, consecutive tickets" into "each member exactly k times"
    ex2 = ck.engine()
    s2 = State()
    s0 = z3.BitVec('window_start', 12)
    ex2.assume(s2, z3.ULT(s0, z3.BitVecVal(1 << 11, 12)))
    r = z3.BitVec('member', 12)
    ex2.inputs = {'window_start': s0, 'member': r}
    for n in range(1, 6):
        for k in (1, 2):
            cnt = sum([z3.If(z3.URem(s0 + j, z3.BitVecVal(n, 12)) == r, z3.BitVecVal(1, 8), z3.BitVecVal(0, 8)) for j in range(k * n)])
            ex2.prove(s2, 'C17/round-robin/each-member-exactly-k-times-in-k*n-consecutive-tickets', z3.Implies(z3.ULT(r, z3.BitVecVal(n, 12)), cnt == z3.BitVecVal(k, 8)))
    ck.absorb(ex2, 'round-robin residue law', None)
    ck.bounds['round_robin'] = 'member count 1..=%d symbolic, any cursor < 2^62; residue law (pure arithmetic) for n<=5, k<=2, window start < 2^11' % NMAX


def spec_random(ck):
    fn = ck.find(lambda: ck.db.method('LoadBalanceConnector', 'random'), 'LoadBalanceConnector::random')
    if fn is None:
        return
    ex = ck.engine()
    ex.benign_havoc = BENIGN
    st = State()
    m = _lb(ck, ex, st)
    pick = z3.BitVec('random_pick', 64)

    def choose(ctx):
        # SliceRandom::choose: None iff empty, else some element
        ctx.ex.assume(ctx.st, z3.ULT(pick, m['n']))
        ctx.st.trace.append(('member-index', pick))
        return C.mk_option(ctx.ex, Ref(ctx.st.alloc(m['members'].at(pick)), ()))
    ex.overrides.append((re.compile(r'SliceRandom>::choose::<'), choose))
    ex.inputs = {'member_count': m['n'], 'random_pick': pick}
    finals = ex.call_fn(st, fn, [Ref(m['arc'], ()), Ref(m['state'], ())])
    for s in finals:
        if s.status != 'returned':
            continue
        gets = [e for e in s.trace if e[0] == 'connectors.get']
        ex.prove(s, 'C17/random/exactly-one-lookup', len(gets) == 1)
        picks = [e[1] for e in s.trace if e[0] == 'member-index']
        # however the member is drawn (SliceRandom::choose, gen_range + index, ...): one draw, inside the list, and that member is used
        ex.prove(s, 'C17/random/exactly-one-member-drawn-from-the-list', z3.And(z3.BoolVal(len(picks) == 1), z3.ULT(picks[0], m['n'])) if len(picks) == 1 else z3.BoolVal(False))
        if gets and len(picks) == 1:
            k = gets[0][1]
            exp = m['members'].at(picks[0])
            j = z3.BitVec(fresh_name('j'), 64)
            ex.prove(s, 'C17/random/selected-upstream-is-the-chosen-member', z3.And(k.len == exp.len, z3.Implies(z3.ULT(j, k.len), k.at(j) == exp.at(j))))
    ck.absorb(ex, 'LoadBalanceConnector::random', finals)


def spec_hash_by(ck):
    fn = ck.find(lambda: ck.db.method('LoadBalanceConnector', 'hash_by'), 'LoadBalanceConnector::hash_by')
    if fn is None:
        return
    ex = ck.engine(loop_bound=4)
    ex.benign_havoc = re.compile(BENIGN.pattern + r'|create_context|props|Default>::default|Into<Arc')
    ex.no_inline = [re.compile(r'create_context$')]
    st = State()
    m = _lb(ck, ex, st)
    H = z3.Function('siphash_state', z3.BitVecSort(64), z3.BitVecSort(64), z3.BitVecSort(64))
    FIN = z3.Function('siphash_finish', z3.BitVecSort(64), z3.BitVecSort(64))
    val = z3.BitVec('key_value_identity', 64)
    raw = z3.BitVec('unresolved_key_object_identity', 64)

    def real_value_of(ctx):
        # the fully evaluated key (native objects resolved to the string they stand for)
        ctx.st.trace.append(('evaluate-key',))
        return C.mk_result(ctx.ex, ok=Agg('milu::Value', {0: Int(val, 64)}))

    def value_of(ctx):
        # one evaluation step only: a native object (request.target, request.source) stays an object whose structural
        # hash differs between representations of the same key string
        ctx.st.trace.append(('evaluate-key-shallow',))
        return C.mk_result(ctx.ex, ok=Agg('milu::Value', {0: Int(raw, 64)}))

    def hasher_new(ctx):
        ctx.st.trace.append(('hasher.new',))
        return Agg('DefaultHasher', {0: Int(BV(0x736f6d6570736575, 64), 64)})     # fixed keys: DefaultHasher::new() is deterministic

    def hash_(ctx):
        v = ctx.ex.deref(ctx.st, ctx.args[0])
        h = ctx.args[1]
        hv = ctx.ex.load(ctx.st, h.cell, h.path)
        vid = v.fields[0].t if isinstance(v, Agg) and 0 in v.fields and isinstance(v.fields[0], Int) else z3.BitVec(fresh_name('otherval'), 64)
        ctx.ex.store(ctx.st, h.cell, h.path, Agg('DefaultHasher', {0: Int(H(hv.fields[0].t, vid), 64)}))
        ctx.st.trace.append(('hash', vid))
        return UNIT

    def finish(ctx):
        hv = ctx.ex.deref(ctx.st, ctx.args[0])
        return Int(FIN(hv.fields[0].t), 64)
    for rx, f in ((r'Value::real_value_of$|Evaluatable>::real_value_of$', real_value_of), (r'Value::value_of$|Evaluatable>::value_of$', value_of),
                  (r'DefaultHasher::new$', hasher_new), (r'<(?:milu::script::)?Value as (?:std::hash::)?Hash>::hash::<', hash_),
                  (r'DefaultHasher as (?:std::hash::)?Hasher>::finish$', finish)):
        ex.overrides.append((re.compile(rx), f))
    ex.inputs = {'member_count': m['n'], 'key_value_identity': val}
    ctxarg = Ref(st.alloc(Ref(st.alloc(Opaque('tokio::sync::RwLock<context::Context>', 'ctx')), ())), ())
    outs = run_async(ex, st, fn, [Ref(m['arc'], ()), Ref(m['state'], ()), ctxarg])
    for o, r in outs:
        if o.status != 'returned' or r is None or _is_err_concrete(r):
            continue
        idxs = [e for e in o.trace if e[0] == 'member-index']
        ex.prove(o, 'C17/hash-by/exactly-one-member-selected', len(idxs) == 1)
        if idxs:
            q_, r_ = ex.divmod(o, FIN(H(BV(0x736f6d6570736575, 64), val)), m['n'])
            ex.prove(o, 'C17/hash-by/index-is-a-function-of-the-key-value-and-member-count-only', idxs[0][1] == r_)
    ck.absorb(ex, 'LoadBalanceConnector::hash_by', [o for o, _ in outs])
    ck.bounds['hash_by'] = 'hashing abstracted to uninterpreted functions of (fixed initial state, evaluated key value); member count 1..=%d' % NMAX


def spec_lb_connect(ck):
    fn = ck.find(lambda: ck.db.method('LoadBalanceConnector', 'connect', trait='Connector'), 'LoadBalanceConnector::connect')
    if fn is None:
        return
    ex = ck.engine(loop_bound=4)
    ex.benign_havoc = BENIGN
    st = State()
    m = _lb(ck, ex, st)
    algo = z3.BitVec('algorithm', 64)
    vn = ex.si.enums['Algorithm']
    ex.assume(st, z3.ULT(algo, BV(len(vn), 64)))
    lb = st.mem[m['lbcell']].with_field(m['fields'].index('algorithm'), Agg('Algorithm', {}, algo, {vn.index('HashBy'): {0: Bytes.symbolic('expr', 'string')}}, vn))
    st.mem[m['lbcell']] = lb
    chosen = Ref(st.alloc(Ref(st.alloc(Opaque('dyn Connector', 'chosen')), ())), ())
    chosen_name = Bytes.symbolic('chosen_member_name', 'str')

    def select(tag):
        def f(ctx):
            ctx.st.trace.append(('select', tag))
            return C.mk_result(ctx.ex, ok=ctx.ex.load(ctx.st, chosen.cell, ()))
        return f

    def select_async(ctx):
        ctx.st.trace.append(('select', 'hash_by'))
        return Future('chosen', [])

    @CA.awaiter('chosen')
    def _aw(ctx, fut):
        return C.mk_result(ctx.ex, ok=ctx.ex.load(ctx.st, chosen.cell, ()))

    def name(ctx):
        return Ref(ctx.st.alloc(chosen_name), ())

    def set_connector(ctx):
        ctx.st.trace.append(('set_connector', ctx.ex.deref(ctx.st, ctx.args[1])))
        return ctx.args[0]

    def connect(ctx):
        ctx.st.trace.append(('member.connect', ctx.ex.deref(ctx.st, ctx.args[0])))
        return Future('sym_result', ['member_connect'])
    for rx, f in ((r'LoadBalanceConnector::round_robin$', select('round_robin')), (r'LoadBalanceConnector::random$', select('random')),
                  (r'LoadBalanceConnector::hash_by$', select_async), (r'<dyn Connector as Connector>::name$', name),
                  (r'Context::set_connector$', set_connector), (r'<dyn Connector as Connector>::connect', connect)):
        ex.overrides.append((re.compile(rx), f))
    ex.inputs = {'algorithm': algo}
    args = [Ref(m['lbcell'], ()), Ref(st.alloc(Opaque('GlobalState', 'state')), ()), Ref(st.alloc(Opaque('RwLock<Context>', 'ctx')), ())]
    outs = run_async(ex, st, fn, args)
    for o, r in outs:
        if o.status != 'returned':
            continue
        T = [e[0] for e in o.trace]
        sel = [e for e in o.trace if e[0] == 'select']
        ex.prove(o, 'C17/connect/exactly-one-selection-by-the-configured-algorithm', len(sel) == 1)
        if sel:
            tag = sel[0][1]
            ex.prove(o, 'C17/connect/algorithm-dispatch', algo == BV(vn.index({'round_robin': 'RoundRobin', 'random': 'Random', 'hash_by': 'HashBy'}[tag]), 64))
        sc = [e for e in o.trace if e[0] == 'set_connector']
        mc = [e for e in o.trace if e[0] == 'member.connect']
        if mc:
            ex.prove(o, 'C17/connect/used-member-recorded-before-it-is-used', len(sc) == 1 and T.index('set_connector') < T.index('member.connect'))
            if sc and isinstance(sc[0][1], Bytes):
                j = z3.BitVec(fresh_name('j'), 64)
                nm = sc[0][1]
                ex.prove(o, 'C17/connect/recorded-name-is-the-selected-members-name',
                         z3.And(nm.len == chosen_name.len, z3.Implies(z3.ULT(j, nm.len), nm.at(j) == chosen_name.at(j))))
            ex.prove(o, 'C17/connect/delegates-to-the-selected-member', isinstance(mc[0][1], Opaque) and mc[0][1].tag == 'chosen')
    ck.absorb(ex, 'LoadBalanceConnector::connect', [o for o, _ in outs])


def spec_lb_verify(ck):
    """verify() at start-up: accepted => the member list is non-empty and EVERY member names a defined connector
    (member selection later unwraps the lookup of whichever member it picks)"""
    fn = ck.find(lambda: ck.db.method('LoadBalanceConnector', 'verify', trait='Connector'), 'LoadBalanceConnector::verify')
    if fn is None:
        return
    fields = ck.si.structs.get('LoadBalanceConnector', ['name', 'connectors', 'algorithm', 'idx', 'hash_by'])
    for n in (0, 1, 2, 3):
        ex = ck.engine(loop_bound=n + 3)
        ex.benign_havoc = BENIGN
        ex.iter_bound = 4
        st = State()
        names = [Bytes.symbolic('member%d' % i, 'string') for i in range(n)]
        defined = [z3.Bool('member%d_is_defined' % i) for i in range(n)]

        def contains_key(ctx, names=names, defined=defined):
            k = ctx.ex.deref(ctx.st, ctx.args[1])
            for i, nm in enumerate(names):
                if k is nm or (isinstance(k, Bytes) and k._at is nm._at):
                    ctx.st.trace.append(('contains_key', i))
                    return Bool(defined[i])
            ctx.st.trace.append(('contains_key', None))
            return Bool(z3.Bool(fresh_name('unknown_key')))
        ex.overrides.append((re.compile(r'^HashMap::<(?:std::string::)?String, Arc<dyn Connector>>::contains_key::<'), contains_key))
        # the members themselves are plain upstreams here (no members of their own); graphs of balancers: spec_lb_member_graph
        ex.overrides.append((re.compile(r'^HashMap::<(?:std::string::)?String, Arc<dyn Connector>>::get::<'), lambda ctx: C.mk_option(ctx.ex, None)))
        ex.eq_bound = 4
        lbname = Bytes.symbolic('lbname', 'string')
        selfref = z3.Or([C.bytes_equal(ex, st, nm, lbname) for nm in names]) if names else z3.BoolVal(False)
        lb = Agg('LoadBalanceConnector', {fields.index('name'): lbname, fields.index('connectors'): SeqV.from_items(names, 'String', 'vec')})
        ex.inputs = dict([('member%d_is_defined' % i, defined[i]) for i in range(n)] + [('lbname', lbname)] + [('member%d' % i, names[i]) for i in range(n)])
        outs = run_async(ex, st, fn, [Ref(st.alloc(lb), ()), Ref(st.alloc(Opaque('GlobalState', 'state')), ())])
        for o, r in outs:
            if o.status != 'returned' or r is None:
                continue
            ok, _ = _ok_payload(r)
            if n == 0:
                ex.prove(o, 'C17/verify/empty-member-list-is-rejected-at-start-up', z3.Not(ok))
            else:
                ex.prove(o, 'C18/verify/accepted-load-balancer-has-only-defined-members', z3.Implies(ok, z3.And(defined)))
                ex.prove(o, 'C18/verify/load-balancer-with-all-members-defined-is-accepted', z3.Implies(z3.And(z3.And(defined), z3.Not(selfref)), ok))
        ck.absorb(ex, 'LoadBalanceConnector::verify', [o for o, _ in outs])
    ck.bounds['lb-verify'] = 'member lists of 0..3 names (<= 4 bytes each, as the balancer\'s own name), each independently defined or not, none a balancer itself'


def spec_lb_init(ck):
    """init() at start-up: accepted => a hashBy balancer carries its compiled key expression -- hash_by() unwraps it on the
    first request, so an accepted configuration without it crashes the proxy when traffic arrives"""
    fn = ck.find(lambda: ck.db.method('LoadBalanceConnector', 'init', trait='Connector'), 'LoadBalanceConnector::init')
    if fn is None:
        return
    ck.plans.append(lb_init_replay_plan)
    fields = ck.si.structs.get('LoadBalanceConnector', ['name', 'connectors', 'algorithm', 'idx', 'hash_by'])
    vn = ck.si.enums['Algorithm']
    ex = ck.engine(loop_bound=4)
    ex.benign_havoc = re.compile(BENIGN.pattern + r'|create_context|Default>::default|Into<Arc|parse$|real_type_of$|PartialEq>::(?:eq|ne)$|drop')
    ex.no_inline = [re.compile(r'create_context$')]
    st = State()
    n = z3.BitVec('member_count', 64)
    ex.assume(st, z3.ULE(n, BV(NMAX, 64)))
    algo = z3.BitVec('algorithm', 64)
    ex.assume(st, z3.ULT(algo, BV(len(vn), 64)))
    members = SeqV(lambda i: Bytes.symbolic('member', 'string'), n, None, 'String', 'vec')
    lb = Agg('LoadBalanceConnector', {fields.index('name'): Bytes.symbolic('lbname', 'string'), fields.index('connectors'): members,
                                      fields.index('algorithm'): Agg('Algorithm', {}, algo, {vn.index('HashBy'): {0: Bytes.symbolic('expr', 'string')}}, vn),
                                      fields.index('idx'): Agg('Atomic', {0: Int(BV(0, 64), 64)}),
                                      fields.index('hash_by'): C.mk_option(ex, None)})      # #[serde(skip)]: None after deserialisation
    lbcell = st.alloc(lb)
    ex.inputs = {'member_count': n, 'algorithm': algo}
    outs = run_async(ex, st, fn, [Ref(lbcell, (), True)])
    reached = 0
    for o, r in outs:
        if o.status != 'returned' or r is None:
            continue
        ok, _ = _ok_payload(r)
        hb = ex.load(o, lbcell, (('f', fields.index('hash_by'), 'Option<Value>'),))
        d = hb.discr if isinstance(hb, Agg) else None
        if d is None:
            ck.add('C18/init/hash-key-expression-state', 'inconclusive', 'hash_by is not an Option value after init: %r' % (hb,))
            continue
        some = z3.BoolVal(d == 1) if isinstance(d, int) else d == BV(1, 64)
        reached += 1
        ex.prove(o, 'C18/init/accepted-hash-balancer-carries-its-compiled-key-expression', z3.Implies(z3.And(ok, algo == BV(vn.index('HashBy'), 64)), some))
    if not reached:
        ck.add('C18/init/reachability', 'vacuous', 'no path through init returned')
    ck.absorb(ex, 'LoadBalanceConnector::init', [o for o, _ in outs])
    ck.bounds['lb-init'] = 'any algorithm, member count 0..=%d; script compilation and type inference return arbitrary results' % NMAX


def lb_init_replay_plan(ob):
    f = ob.finding
    if f is None or not ob.label.startswith('C18/init/'):
        return None
    n = min(int(f.inputs.get('member_count', 0)), 16)
    return 'loadbalance', {'driver': 'lb_init', 'args': {'members': n}}, lambda o: bool(o.get('init_ok')) and bool(o.get('is_hash_by')) and not o.get('has_key_expr')


# --------------------------------------------------------------------------- member graphs: an accepted balancer is not its own (indirect) member

GRAPH_NAMES = [b'lb0', b'lb1', b'up0']


def _name_eq(k, lit):
    return z3.And([k.len == BV(len(lit), 64)] + [k.at(BV(j, 64)) == BV(lit[j], 8) for j in range(len(lit))])


def spec_lb_member_graph(ck):
    """verify() over every member graph of two balancers (lb0, lb1; 1..2 members each, every member one of lb0 / lb1 / a plain
    upstream up0, all three defined): lb0 is accepted iff lb0 is not reachable from itself.  A balancer that reaches itself
    recurses without end on the first request routed to it (connect -> member.connect -> ...): the stack overflows and the
    process aborts."""
    fn = ck.find(lambda: ck.db.method('LoadBalanceConnector', 'verify', trait='Connector'), 'LoadBalanceConnector::verify')
    if fn is None:
        return
    ck.plans.append(lb_graph_replay_plan)
    fields = ck.si.structs.get('LoadBalanceConnector', ['name', 'connectors', 'algorithm', 'idx', 'hash_by'])
    NB = len(GRAPH_NAMES)
    import itertools

    def run_graphs(n0, n1, fixed, budget):
        """one symbolic run over all member choices (fixed=None), or one run per concrete choice"""
        ex = ck.engine(loop_bound=14)
        ex.benign_havoc = re.compile(BENIGN.pattern + r'|drop')
        ex.iter_bound = 4
        ex.eq_bound = 4
        if budget:
            ex.max_paths = budget
            import time as _t
            ex.deadline = _t.time() + 20
        st = State()
        sel = {}
        names = iter(fixed) if fixed is not None else None

        def pick(hint):
            if names is not None:
                idx = next(names)
                sel[hint] = BV(idx, 64)
                return Bytes.from_py(GRAPH_NAMES[idx], 'string')
            k = z3.BitVec(hint, 64)
            ex.assume(st, z3.ULT(k, BV(NB, 64)))

            def at(j, k=k):
                r = BV(0, 8)
                for pos in range(3):
                    ch = BV(GRAPH_NAMES[-1][pos], 8)
                    for i in range(NB - 1):
                        ch = z3.If(k == BV(i, 64), BV(GRAPH_NAMES[i][pos], 8), ch)
                    r = z3.If(j == BV(pos, 64), ch, r)
                return simp(r)
            sel[hint] = k
            return Bytes(at, BV(3, 64), 'string')
        objs = []
        for b, cnt in ((0, n0), (1, n1)):
            ms = [pick('lb%d_member%d' % (b, i)) for i in range(cnt)]
            objs.append(Agg('LoadBalanceConnector', {fields.index('name'): Bytes.from_py(GRAPH_NAMES[b], 'string'),
                                                     fields.index('connectors'): SeqV.from_items(ms, 'String', 'vec'),
                                                     fields.index('idx'): Agg('Atomic', {0: Int(BV(0, 64), 64)}),
                                                     fields.index('hash_by'): C.mk_option(ex, None)}))
        objs.append(Agg('DirectConnector', {}))
        # Arc<dyn Connector> values of the map: pointer to pointer to object
        arcs = [st.alloc(Ref(st.alloc(o), ())) for o in objs]

        def contains_key(ctx):
            k = ctx.ex.deref(ctx.st, ctx.args[1])
            return Bool(simp(z3.Or([_name_eq(k, nm) for nm in GRAPH_NAMES])))

        def map_get(ctx):
            k = ctx.ex.deref(ctx.st, ctx.args[1])
            outs = []
            rest = []
            for i, nm in enumerate(GRAPH_NAMES):
                c = simp(_name_eq(k, nm))
                t, f = ctx.ex.branch(ctx.st, c)
                if t:
                    s2 = ctx.st.fork()
                    ctx.ex.assume(s2, c)
                    outs.append((s2, C.mk_option(ctx.ex, Ref(arcs[i], ()))))
                rest.append(z3.Not(c))
            t, f = ctx.ex.branch(ctx.st, z3.And(rest))
            if t:
                ctx.ex.assume(ctx.st, z3.And(rest))
                outs.append((ctx.st, C.mk_option(ctx.ex, None)))
            return outs
        ex.overrides.append((re.compile(r'^HashMap::<(?:std::string::)?String, Arc<dyn Connector>>::contains_key::<'), contains_key))
        ex.overrides.append((re.compile(r'^HashMap::<(?:std::string::)?String, Arc<dyn Connector>>::get::<'), map_get))
        ex.inputs = dict(sel)
        lb0cell = ex.load(st, arcs[0], ()).cell
        outs = run_async(ex, st, fn, [Ref(lb0cell, ()), Ref(st.alloc(Opaque('GlobalState', 'state')), ())])
        if budget and any(o.status == 'cut' and any('budget' in n for n in o.notes) for o, _ in outs):
            if ex in ck.engines:
                ck.engines.remove(ex)
            return None
        m0 = [sel['lb0_member%d' % i] for i in range(n0)]
        m1 = [sel['lb1_member%d' % i] for i in range(n1)]
        direct = z3.Or([k == BV(0, 64) for k in m0])
        via1 = z3.And(z3.Or([k == BV(1, 64) for k in m0]), z3.Or([k == BV(0, 64) for k in m1]))
        cyclic = simp(z3.Or(direct, via1))
        reached = 0
        for o, r in outs:
            if o.status != 'returned' or r is None:
                continue
            ok, _ = _ok_payload(r)
            reached += 1
            ex.prove(o, 'C18/verify/accepted-load-balancer-is-not-its-own-member', z3.Implies(ok, z3.Not(cyclic)))
            ex.prove(o, 'C18/verify/load-balancer-whose-members-do-not-lead-back-to-it-is-accepted', z3.Implies(z3.Not(cyclic), ok))
        # the walk visits each of the <= 4 member entries at most once: a path still looping after 14 iterations never ends
        stuck = [o for o, r in outs if o.status == 'bounded']
        for o in stuck:
            ex.prove(o, 'C18/verify/member-graph-walk-terminates', z3.BoolVal(False))
        if not stuck:
            ck.add('C18/verify/member-graph-walk-terminates', 'discharged', 'no path reaches the unwinding bound (14 > 4 member entries)', None,
                   'LoadBalanceConnector::verify graph %d+%d' % (n0, n1))
        if not reached:
            ck.add('C18/verify/member-graph/%d+%d/reachability' % (n0, n1), 'vacuous', 'no path through verify returned')
        ck.absorb(ex, 'LoadBalanceConnector::verify graph %d+%d' % (n0, n1), [o for o, _ in outs])
        return True
    mode = {}
    for n0 in (1, 2):
        for n1 in (1, 2):
            # all member choices at once, symbolically; a walk that keeps a visited set forks on every pair of names -- if that
            # exceeds the path budget the finite family of graphs is gone through one by one instead (same obligations)
            if run_graphs(n0, n1, None, 400) is None:
                mode[(n0, n1)] = 'one run per graph'
                for fixed in itertools.product(range(NB), repeat=n0 + n1):
                    run_graphs(n0, n1, fixed, 0)
            else:
                mode[(n0, n1)] = 'symbolic'
    ck.notes.append('load-balancer member graphs: %s' % mode)
    ck.bounds['lb-member-graph'] = ('connector map {lb0, lb1 (balancers), up0 (plain)}, lb0 and lb1 with 1..2 members each, every member any of the three names: '
                                    'all %d graphs; longer cycles (three or more balancers) are outside the bound' % sum(3 ** (a + b) for a in (1, 2) for b in (1, 2)))


def lb_graph_replay_plan(ob):
    f = ob.finding
    if f is None or not ob.label.startswith('C18/verify/') or 'member' not in (ob.target or '') and 'graph' not in (ob.target or ''):
        return None
    i = f.inputs
    nm = [x.decode() for x in GRAPH_NAMES]
    g = {}
    for b in (0, 1):
        g['lb%d' % b] = [nm[int(i[k]) % len(nm)] for k in sorted(i) if k.startswith('lb%d_member' % b)]
    case = {'driver': 'lb_graph', 'args': {'graph': g}}
    if 'walk-terminates' in ob.label:
        return 'loadbalance', case, lambda o: bool(o.get('hang'))
    if 'is-not-its-own-member' in ob.label:
        return 'loadbalance', case, lambda o: bool(o.get('verify_ok')) and bool(o.get('cyclic'))
    return 'loadbalance', case, lambda o: o.get('verify_ok') is False and not o.get('cyclic')
