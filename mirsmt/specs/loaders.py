"""Specs for the hand-written configuration loaders: every panic site must be unreachable whatever shape the YAML value
has (accessors return arbitrary results) and whatever the serde-generated deserialisers return.  Property C18."""
import re
import z3
import harness
from values import Int, Bool, UNIT, Agg, Ref, Opaque, Bytes, SeqV, Future, BV, simp, concrete, fresh_name
from engine import State, Unsupported
import contracts as C
import contracts_async as CA
from specs.codec import run_async


def _run_sync(ck, label, getter, args_builder, loop_bound=3):
    fn = ck.find(getter, label)
    if fn is None:
        return
    ex = ck.engine(loop_bound=loop_bound, call_depth=6)
    ex.benign_havoc = None        # everything here is havoc: findings must be confirmed natively
    ex.no_inline = [re.compile(r'^(?:direct|connectors::http|loadbalance|connectors::quic|connectors::socks|listeners::http|reverse|listeners::socks|listeners::quic|tproxy)::from_value$|milu')]
    st = State()
    args = args_builder(ex, st)
    if 'async fn body' in fn.ret or 'dyn futures::Future' in fn.ret or 'dyn Future' in fn.ret:
        outs = run_async(ex, st, fn, args)
        finals = [o for o, _ in outs]
    else:
        finals = ex.call_fn(st, fn, args)
    for f in ex.findings:
        f.target = label
    ck.absorb(ex, label, finals, expect_paths=False)
    done = [s for s in finals if s.status in ('returned', 'diverged')]
    if done and not ex.findings:
        ck.add(label + '/every-explored-path-returns-Ok-or-Err-without-reaching-a-panic-site', 'discharged',
               '%d paths, %d solver queries, %d panic-site obligations' % (len(done), ex.stats['queries'], ex.stats['obligations']), None, label)
        ck.samples.append({'target': label, 'paths': len(done), 'returns': sorted(set(repr(s.ret)[:40] for s in done))[:4]})


def yaml_value(ex, st):
    return [Ref(st.alloc(Opaque('serde_yaml::Value', 'yaml')), ())]


def yaml_slice(ex, st):
    return [Ref(st.alloc(SeqV.from_items([Opaque('serde_yaml::Value', 'yaml0'), Opaque('serde_yaml::Value', 'yaml1')], 'Value', 'slice')), ())]


def run_all(ck):
    ck.plans.append(replay_plan)
    db = ck.db

    def free_in(name, frag):
        def g():
            c = [f for f in db.by_method.get(name, []) if not db.info(f)['impl'] and not db.info(f)['closure'] and frag in (f.name + ' ' + f.header)]
            if len(c) != 1:
                # free functions of a module are printed with a module prefix; match on the return type as well
                raise KeyError('%s in %s: %d candidates' % (name, frag, len(c)))
            return c[0]
        return g

    def by_ret(name, retfrag):
        def g():
            c = [f for f in db.by_method.get(name, []) if not db.info(f)['impl'] and not db.info(f)['closure'] and retfrag in f.ret]
            if len(c) != 1:
                raise KeyError('%s -> %s: %d candidates' % (name, retfrag, len(c)))
            return c[0]
        return g
    _run_sync(ck, 'connectors::from_value', lambda: db.one(r'^connectors::from_value$'), yaml_value)
    _run_sync(ck, 'listeners::from_value', lambda: db.one(r'^listeners::from_value$'), yaml_value)
    _run_sync(ck, 'connectors::from_config', by_ret('from_config', 'Arc<dyn Connector>'), yaml_slice, loop_bound=4)
    _run_sync(ck, 'listeners::from_config', by_ret('from_config', 'Arc<dyn Listener>'), yaml_slice, loop_bound=4)
    _run_sync(ck, 'rules::from_config', by_ret('from_config', 'Vec<Arc<Rule>>'), yaml_slice, loop_bound=4)
    _run_sync(ck, 'Rule::init', lambda: db.method('Rule', 'init'), lambda ex, st: [Ref(st.alloc(Opaque('Rule', 'rule')), ())])
    _run_sync(ck, 'Filter::validate', lambda: db.method('Filter', 'validate'), lambda ex, st: [Ref(st.alloc(Opaque('Filter', 'filter')), ())])
    _run_sync(ck, 'LoadBalanceConnector::init', lambda: db.method('LoadBalanceConnector', 'init', trait='Connector'),
              lambda ex, st: [Ref(st.alloc(Opaque('LoadBalanceConnector', 'lb')), ())])
    _run_sync(ck, 'LoadBalanceConnector::verify', lambda: db.method('LoadBalanceConnector', 'verify', trait='Connector'),
              lambda ex, st: [Ref(st.alloc(Opaque('LoadBalanceConnector', 'lb')), ()), Ref(st.alloc(Opaque('GlobalState', 'state')), ())])
    _run_sync(ck, 'SocksConnector::init', lambda: db.method('SocksConnector', 'init', trait='Connector'),
              lambda ex, st: [Ref(st.alloc(Opaque('SocksConnector', 'c')), ())])
    ck.bounds['loaders'] = 'one call each; serde_yaml::Value abstracted to arbitrary accessor outcomes; results of serde-generated deserialisers arbitrary; <= 2 list entries'


def spec_configured_address(ck):
    """a destination read from the configuration (serde: TargetAddressVisitor::visit_str -> FromStr) is a socket address or a
    host:port pair, never the internal `Unknown` placeholder: the connectors treat that variant as impossible
    (`unreachable!()` in DirectConnector::connect and the SOCKS writers), so a configuration that smuggles it in loads, passes
    --test and aborts the process on the first connection it is used for."""
    import harness
    vn = ck.si.enums.get('TargetAddress')
    if not vn or 'Unknown' not in vn:
        ck.add('C18/target-address/anchor', 'undecided', 'anchor_missing: enum TargetAddress with an Unknown variant')
        return
    unknown = vn.index('Unknown')
    targets = [('TargetAddress::from_str', lambda: ck.db.method('TargetAddress', 'from_str', trait='FromStr'), False),
               ('TargetAddressVisitor::visit_str', lambda: ck.db.method('TargetAddressVisitor', 'visit_str', trait='Visitor'), True)]
    for label, getter, is_visitor in targets:
        fn = ck.find(getter, label)
        if fn is None:
            continue
        ex = ck.engine(loop_bound=4, call_depth=8)
        ex.benign_havoc = harness.IRRELEVANT
        st = State()
        s = Bytes.symbolic('configured_address', 'str')
        ex.assume(st, z3.ULE(s.len, BV(24, 64)))
        ex.inputs = {'configured_address': s}
        sref = Ref(st.alloc(s), ())
        outs = ex.call_fn(st, fn, [Opaque('TargetAddressVisitor', 'visitor'), sref] if is_visitor else [sref])
        reached = 0
        for o in outs:
            r = o.ret
            if o.status != 'returned' or not isinstance(r, Agg) or r.name != 'Result':
                continue
            reached += 1
            d = r.discr if not isinstance(r.discr, int) else BV(r.discr, 64)
            ok = d == BV(0, 64)
            val = r.variants.get(0, {}).get(0)
            if isinstance(val, Agg) and val.name == 'TargetAddress':
                vd = val.discr if not isinstance(val.discr, int) else BV(val.discr, 64)
                ex.prove(o, 'C18/target-address/a-configured-address-is-never-the-internal-unknown-placeholder', z3.Implies(ok, vd != BV(unknown, 64)))
            elif val is not None:
                ex.prove(o, 'C18/target-address/a-configured-address-is-never-the-internal-unknown-placeholder', z3.Not(ok) if isinstance(val, Opaque) and False else z3.BoolVal(True))
        if not reached:
            ck.add('C18/target-address/reachability/' + label, 'vacuous', 'no path returned a Result')
        for f in ex.findings:
            if not hasattr(f, 'target'):
                f.target = 'configured address'
        ck.absorb(ex, label, outs)
    ck.plans.append(_address_replay_plan)
    ck.bounds['configured-address'] = 'address string of <= 24 bytes through FromStr and through the serde visitor'


def _address_replay_plan(ob):
    if (ob.target or '') != 'configured address' or not ob.label.startswith('C18/target-address/') or ob.finding is None:
        return None
    hx = ((ob.finding.inputs or {}).get('configured_address') or {}).get('hex', '')
    try:
        txt = bytes.fromhex(hx).decode('utf-8')
    except Exception:
        txt = 'unknown'
    cases = [{'driver': 'address', 'args': {'text': t}} for t in dict.fromkeys([txt, 'unknown'])]
    return 'loaders', cases, lambda o: o.get('parsed_as_unknown') is True


# scalars that are long and not ASCII: byte offsets 16 / 32 / 40 / 64 / 80 fall inside a character for one or the other
_LONG = ['\u6f22' * 40, 'a' + '\u00e9' * 60, 'ab' + '\u00e9' * 60, '\U0001f600' * 30, 'abc' + '\u6f22' * 40]
YAML_LONG = ['{name: x, type: "%s"}' % v for v in _LONG] + ['{name: "%s"}' % v for v in _LONG] + ['{name: "%s", type: direct}' % v for v in _LONG[:2]]


YAML_BATTERY = {
    'connectors': ['name: 5', 'name: [a]', '{name: x, type: 5}', '{name: x, type: [1]}', '{name: x, type: {a: b}}', 'name: ~', '{name: direct, type: ~}', '5', '[]', '{}',
                   '{name: true}', '{name: x, type: true}', '{name: 1.5}', '{type: direct}'],
    'listeners': ['name: 5', 'name: [a]', '{name: x, type: 5}', '{name: x, type: [1]}', 'name: ~', '5', '[]', '{}', '{name: true}', '{name: x, type: true}', '{type: http}'],
    'rules': ['target: 5', '{target: x, filter: 5}', '5', '[]', '{}', '{filter: "1 =="}'],
}


def replay_plan(ob):
    t = ob.target or ''
    if ob.label.startswith('C18/'):
        return None
    if re.search(r'(?:^|[^a-z_])(?:load_keys|load_certs)/', ob.label):
        # a panic site inside the TLS key / certificate file loaders: battery of file contents against the real functions
        return 'tls', {'driver': 'tls_files', 'args': {}}, lambda o: bool(o.get('panicked'))
    for key in ('connectors', 'listeners', 'rules'):
        if t.startswith(key + '::'):
            fnname = t.split('::')[1]
            cases = []
            for y in YAML_BATTERY[key] + (YAML_LONG if key in ('connectors', 'listeners') else ['{target: "%s"}' % v for v in _LONG[:2]]):
                doc = y if fnname == 'from_value' else '[%s]' % ('{' + y + '}' if not y.startswith(('{', '[', '5')) else y)
                cases.append({'driver': 'load', 'args': {'which': key, 'fn': fnname, 'yaml': doc}})
            return 'loaders', cases, lambda o: bool(o.get('panicked'))
    return None


# =========================================================================== the metrics / API server section

def spec_metrics_config(ck):
    """"a configuration that is accepted (including by --test) never makes the proxy crash": the `metrics:` section is accepted by
    MetricsServer::init (that is all --test runs) and used by MetricsServer::listen at start-up.  Both are executed on the same
    symbolic section (cors and apiPrefix any strings of <= 6 bytes): whatever init accepts, listen must get through without a panic.
    Contracts (library semantics, stated): http::HeaderValue::from_str fails iff the text holds a byte other than TAB, 0x20..0x7e or
    >= 0x80; axum 0.6 Router::nest panics unless the path is empty or starts with `/` and holds no `*`."""
    init = ck.find(lambda: ck.db.method('MetricsServer', 'init'), 'MetricsServer::init')
    listen = ck.find(lambda: ck.db.method('MetricsServer', 'listen'), 'MetricsServer::listen')
    fields = ck.si.structs.get('MetricsServer', [])
    if init is None or listen is None or not fields:
        return
    ex = ck.engine(loop_bound=8, call_depth=8)
    ex.benign_havoc = harness.IRRELEVANT
    ex.no_inline = [re.compile(r'ui_service$|embedded_ui')]
    ex.havoc_result_ok = True
    st = State()
    cors = Bytes.symbolic('cors', 'string')
    prefix = Bytes.symbolic('api_prefix', 'string')
    ex.assume(st, z3.And(z3.ULE(cors.len, BV(6, 64)), z3.ULE(prefix.len, BV(6, 64))))
    cfg = Agg('MetricsServer', dict((i, (cors if n == 'cors' else (prefix if n == 'api_prefix' else (C.mk_option(ex, None) if n == 'ui' else Opaque(n, 'cfg_' + n))))) for i, n in enumerate(fields)))
    cell = st.alloc(cfg)
    ex.inputs = {'cors': cors, 'api_prefix': prefix}

    def text(ctx, v):
        for _ in range(4):
            if isinstance(v, Ref):
                v = ctx.ex.deref(ctx.st, v)
        return v if isinstance(v, Bytes) else None

    def header_from_str(ctx):
        b = text(ctx, ctx.args[0])
        if b is None:
            return NotImplemented
        bad = z3.Or([z3.And(z3.ULT(BV(i, 64), b.len), z3.Or(z3.And(z3.ULT(b.at(i), BV(32, 8)), b.at(i) != BV(9, 8)), b.at(i) == BV(127, 8))) for i in range(6)])
        return Agg('Result', {}, simp(z3.If(bad, BV(1, 64), BV(0, 64))), {0: {0: Opaque('HeaderValue', 'hv')}, 1: {0: Opaque('InvalidHeaderValue', 'e')}}, ctx.ex.si.enums['Result'])

    def nest(ctx):
        b = text(ctx, ctx.args[1])
        if b is None:
            return NotImplemented
        star = z3.Or([z3.And(z3.ULT(BV(i, 64), b.len), b.at(i) == BV(0x2a, 8)) for i in range(6)])
        ok = z3.Or(b.len == BV(0, 64), z3.And(b.at(0) == BV(0x2f, 8), z3.Not(star)))
        ctx.ex.require(ctx.st, ok, 'panic', 'axum::Router::nest: the path must start with `/` and hold no `*`')
        return Opaque('Router', 'nested')
    ex.overrides.append((re.compile(r'HeaderValue::from_str$'), header_from_str))
    ex.overrides.append((re.compile(r'Router(?:::<.*>)?::nest$'), nest))
    label = 'C18/metrics/a-section-that-init-accepts-does-not-panic-at-start-up'
    accepted = []
    for s in ex.call_fn(st, init, [Ref(cell, (), True)]):
        if s.status == 'returned' and not _is_err(s.ret):
            okc, _ = _okp(s.ret)
            try:
                ex.assume(s, okc)
            except Exception:
                continue
            s.frames, s.status = [], 'running'
            accepted.append(s)
    allf = []
    n0 = len(ex.findings)
    for s in accepted:
        outs = run_async(ex, s, listen, [Ref(cell, ()), Ref(s.alloc(Opaque('GlobalState', 'state')), ())])
        allf += [o for o, _ in outs]
    for f in ex.findings[n0:]:
        f.site = label
        f.target = 'MetricsServer::init + listen'
    for k in [k for k in ex.site_samples if k != label and ('listen' in k or 'nest' in k)]:
        v = ex.site_samples.pop(k)
        if v.get('status') == 'violated' or label not in ex.site_samples:
            ex.site_samples[label] = v
    if not accepted:
        ck.add('C18/metrics/reachability', 'vacuous', 'MetricsServer::init accepted nothing in the model')
    def plan(ob):
        if (ob.target or '') != 'MetricsServer::init + listen':
            return None
        # the offending setting alone, everything else at a harmless value
        pairs = (('*', 'api'), ('*', '/a*')) if 'nest' in (ob.detail or '') else (('a\nb', '/api'), ('a\x7fb', '/api'))
        return 'locks', [{'driver': 'metrics_section', 'args': {'cors': c, 'api_prefix': p_}} for c, p_ in pairs], lambda o: o.get('init_ok') is True and o.get('listen_panicked') is True
    ck.plans.append(plan)
    ck.absorb(ex, 'MetricsServer::init + listen', allf)
    ck.bounds['metrics-section'] = 'cors and apiPrefix any strings of <= 6 bytes; ui absent; bind any'


def _is_err(r):
    from specs.codec import _is_err_concrete
    return _is_err_concrete(r)


def _okp(r):
    from specs.codec import _ok_payload
    return _ok_payload(r)


# =========================================================================== the ioParams section

def spec_io_params(ck):
    """ioParams.bufferSize reaches the relay as it was read (serde: any usize): `copy_half` allocates its buffer with it on the
    first connection.  Whatever the loader accepts must not make that allocation panic (a size above isize::MAX is a "capacity
    overflow" panic; panic = abort), and must be a buffer the relay can work with (a relay buffer of 0 bytes reads 0 bytes = end
    of stream: every tunnel would end at once).  "What the loader accepts": every buffer size for which the validation method
    of IoParams (a method named verify / validate / check / init, if there is one) returns Ok; without such a method, every size."""
    fn = ck.find(lambda: ck.db.free('copy_half'), 'copy_half')
    pf = ck.si.structs.get('IoParams', [])
    if fn is None or 'buffer_size' not in pf:
        return
    from specs.relay import spec_copy_half_stream   # noqa
    ex = ck.engine(loop_bound=3, call_depth=8)
    ex.benign_havoc = harness.IRRELEVANT
    ex.havoc_result_ok = True
    st = State()
    bufsz = z3.BitVec('buffer_size', 64)
    params = Agg('IoParams', dict((i, Int(bufsz, 64, False) if n == 'buffer_size' else Bool(z3.Bool('cfg_' + n))) for i, n in enumerate(pf)))
    pcell = st.alloc(params)
    ex.inputs = {'buffer_size': bufsz}
    validators = [f for f in ck.db.fns if f.params and re.search(r'&(?:mut )?(?:config::)?IoParams$', f.params[0][1].strip()) and len(f.params) == 1
                  and re.search(r'::(verify|validate|check|init)$', f.name)]
    states = [st]
    if validators:
        # the validation only counts if loading a configuration runs it: some function on the start-up path (Config::load, main) calls it
        vname = validators[0].name.split('::')[-1]
        callers = [f for f in ck.db.fns if f is not validators[0] and re.search(r'(?:^|::)load(?:::|$)|(?:^|::)main(?:::|$)', f.name) and ('config' in f.name.lower() or 'main' in f.name)
                   and any(re.search(r'IoParams::%s\(' % vname, ln) for ln in f.raw_lines)]
        if not callers:
            validators = []
    if validators:
        ck.target(validators[0])
        states = []
        for s in ex.call_fn(st, validators[0], [Ref(pcell, ())]):
            if s.status == 'returned' and not _is_err(s.ret):
                okc, _ = _okp(s.ret)
                try:
                    ex.assume(s, okc)
                except Exception:
                    continue
                s.frames, s.status = [], 'running'
                states.append(s)
    label = 'C18/io-params/an-accepted-buffer-size-is-one-the-relay-can-allocate-and-use'

    def zeroed(ctx):
        n = ctx.args[0].t
        ctx.ex.prove(ctx.st, label, z3.And(z3.ULE(n, BV((1 << 63) - 1, 64)), n != BV(0, 64)))
        ctx.st.trace.append(('relay-buffer-allocated',))
        from engine import DIVERGE
        return DIVERGE
    ex.overrides.append((re.compile(r'BytesMut::zeroed$|BytesMut::with_capacity$|Vec::<u8>::with_capacity$|from_elem::<u8>$'), zeroed))
    sf = ck.si.structs.get('SrcHalf', ['name', 'stream', 'frames', 'rawfd'])
    reached = 0
    allf = []
    for s in states:
        src = Agg('SrcHalf', dict((i, Bytes.from_py(b'client', 'str') if n == 'name' else C.mk_option(ex, None)) for i, n in enumerate(sf)))
        dst = Agg('DstHalf', dict((i, Bytes.from_py(b'server', 'str') if n == 'name' else C.mk_option(ex, None)) for i, n in enumerate(sf)))
        outs = run_async(ex, s, fn, [Ref(pcell, ()), src, dst, Ref(s.alloc(Opaque('ContextStatistics', 'stat')), ()), Opaque('GenericCounter', 'metric')])
        for o, _ in outs:
            allf.append(o)
            if ('relay-buffer-allocated',) in o.trace:
                reached += 1
    if not reached:
        ck.add('C18/io-params/reachability', 'vacuous' if states else 'discharged', 'copy_half never allocated its buffer in the model' if states else 'the validation accepts no buffer size at all')
    for f in ex.findings:
        if not hasattr(f, 'target'):
            f.target = 'IoParams -> copy_half'
    ck.plans.append(lambda ob: ('relay', [{'driver': 'buffer_size', 'args': {'buffer_size': b}} for b in ('18446744073709551615', '9223372036854775808', '0')],
                                lambda o: o.get('accepted') is True and (o.get('panicked') is True or o.get('tunnel_dead') is True)) if (ob.target or '') == 'IoParams -> copy_half' else None)
    ck.absorb(ex, 'IoParams -> copy_half', allf, expect_paths=False)
    ck.bounds['io-params'] = 'every buffer size (64 bit) the validation method accepts%s' % ('' if validators else ' -- there is none: every size')
