"""Specs for the hand-written configuration loaders: every panic site must be unreachable whatever shape the YAML value
has (accessors return arbitrary results) and whatever the serde-generated deserialisers return.  Property C18."""
import re
import z3
from values import Int, Bool, UNIT, Agg, Ref, Opaque, Bytes, SeqV, Future, BV, simp, concrete, fresh_name
from engine import State, Unsupported
import contracts as C
import contracts_async as CA
from specs.codec import run_async


def _run_sync(ck, label, getter, args_builder, loop_bound=3):
    fn = ck.find(getter, label)
    if fn is None:
        return
    ex = ck.engine(loop_bound=loop_bound, call_depth=6)
    ex.benign_havoc = None        # everything here is havoc: findings must be confirmed natively
    ex.no_inline = [re.compile(r'^(?:direct|connectors::http|loadbalance|connectors::quic|connectors::socks|listeners::http|reverse|listeners::socks|listeners::quic|tproxy)::from_value$|milu')]
    st = State()
    args = args_builder(ex, st)
    if 'async fn body' in fn.ret or 'dyn futures::Future' in fn.ret or 'dyn Future' in fn.ret:
        outs = run_async(ex, st, fn, args)
        finals = [o for o, _ in outs]
    else:
        finals = ex.call_fn(st, fn, args)
    for f in ex.findings:
        f.target = label
    ck.absorb(ex, label, finals, expect_paths=False)
    done = [s for s in finals if s.status in ('returned', 'diverged')]
    if done and not ex.findings:
        ck.add(label + '/every-explored-path-returns-Ok-or-Err-without-reaching-a-panic-site', 'discharged',
               '%d paths, %d solver queries, %d panic-site obligations' % (len(done), ex.stats['queries'], ex.stats['obligations']), None, label)
        ck.samples.append({'target': label, 'paths': len(done), 'returns': sorted(set(repr(s.ret)[:40] for s in done))[:4]})


def yaml_value(ex, st):
    return [Ref(st.alloc(Opaque('serde_yaml::Value', 'yaml')), ())]


def yaml_slice(ex, st):
    return [Ref(st.alloc(SeqV.from_items([Opaque('serde_yaml::Value', 'yaml0'), Opaque('serde_yaml::Value', 'yaml1')], 'Value', 'slice')), ())]


def run_all(ck):
    ck.plans.append(replay_plan)
    db = ck.db

    def free_in(name, frag):
        def g():
            c = [f for f in db.by_method.get(name, []) if not db.info(f)['impl'] and not db.info(f)['closure'] and frag in (f.name + ' ' + f.header)]
            if len(c) != 1:
                # free functions of a module are printed with a module prefix; match on the return type as well
                raise KeyError('%s in %s: %d candidates' % (name, frag, len(c)))
            return c[0]
        return g

    def by_ret(name, retfrag):
        def g():
            c = [f for f in db.by_method.get(name, []) if not db.info(f)['impl'] and not db.info(f)['closure'] and retfrag in f.ret]
            if len(c) != 1:
                raise KeyError('%s -> %s: %d candidates' % (name, retfrag, len(c)))
            return c[0]
        return g
    _run_sync(ck, 'connectors::from_value', lambda: db.one(r'^connectors::from_value$'), yaml_value)
    _run_sync(ck, 'listeners::from_value', lambda: db.one(r'^listeners::from_value$'), yaml_value)
    _run_sync(ck, 'connectors::from_config', by_ret('from_config', 'Arc<dyn Connector>'), yaml_slice, loop_bound=4)
    _run_sync(ck, 'listeners::from_config', by_ret('from_config', 'Arc<dyn Listener>'), yaml_slice, loop_bound=4)
    _run_sync(ck, 'rules::from_config', by_ret('from_config', 'Vec<Arc<Rule>>'), yaml_slice, loop_bound=4)
    _run_sync(ck, 'Rule::init', lambda: db.method('Rule', 'init'), lambda ex, st: [Ref(st.alloc(Opaque('Rule', 'rule')), ())])
    _run_sync(ck, 'Filter::validate', lambda: db.method('Filter', 'validate'), lambda ex, st: [Ref(st.alloc(Opaque('Filter', 'filter')), ())])
    _run_sync(ck, 'LoadBalanceConnector::init', lambda: db.method('LoadBalanceConnector', 'init', trait='Connector'),
              lambda ex, st: [Ref(st.alloc(Opaque('LoadBalanceConnector', 'lb')), ())])
    _run_sync(ck, 'LoadBalanceConnector::verify', lambda: db.method('LoadBalanceConnector', 'verify', trait='Connector'),
              lambda ex, st: [Ref(st.alloc(Opaque('LoadBalanceConnector', 'lb')), ()), Ref(st.alloc(Opaque('GlobalState', 'state')), ())])
    _run_sync(ck, 'SocksConnector::init', lambda: db.method('SocksConnector', 'init', trait='Connector'),
              lambda ex, st: [Ref(st.alloc(Opaque('SocksConnector', 'c')), ())])
    ck.bounds['loaders'] = 'one call each; serde_yaml::Value abstracted to arbitrary accessor outcomes; results of serde-generated deserialisers arbitrary; <= 2 list entries'


def spec_configured_address(ck):
    """a destination read from the configuration (serde: TargetAddressVisitor::visit_str -> FromStr) is a socket address or a
    host:port pair, never the internal `Unknown` placeholder: the connectors treat that variant as impossible
    (`unreachable!()` in DirectConnector::connect and the SOCKS writers), so a configuration that smuggles it in loads, passes
    --test and aborts the process on the first connection it is used for."""
    import harness
    vn = ck.si.enums.get('TargetAddress')
    if not vn or 'Unknown' not in vn:
        ck.add('C18/target-address/anchor', 'undecided', 'anchor_missing: enum TargetAddress with an Unknown variant')
        return
    unknown = vn.index('Unknown')
    targets = [('TargetAddress::from_str', lambda: ck.db.method('TargetAddress', 'from_str', trait='FromStr'), False),
               ('TargetAddressVisitor::visit_str', lambda: ck.db.method('TargetAddressVisitor', 'visit_str', trait='Visitor'), True)]
    for label, getter, is_visitor in targets:
        fn = ck.find(getter, label)
        if fn is None:
            continue
        ex = ck.engine(loop_bound=4, call_depth=8)
        ex.benign_havoc = harness.IRRELEVANT
        st = State()
        s = Bytes.symbolic('configured_address', 'str')
        ex.assume(st, z3.ULE(s.len, BV(24, 64)))
        ex.inputs = {'configured_address': s}
        sref = Ref(st.alloc(s), ())
        outs = ex.call_fn(st, fn, [Opaque('TargetAddressVisitor', 'visitor'), sref] if is_visitor else [sref])
        reached = 0
        for o in outs:
            r = o.ret
            if o.status != 'returned' or not isinstance(r, Agg) or r.name != 'Result':
                continue
            reached += 1
            d = r.discr if not isinstance(r.discr, int) else BV(r.discr, 64)
            ok = d == BV(0, 64)
            val = r.variants.get(0, {}).get(0)
            if isinstance(val, Agg) and val.name == 'TargetAddress':
                vd = val.discr if not isinstance(val.discr, int) else BV(val.discr, 64)
                ex.prove(o, 'C18/target-address/a-configured-address-is-never-the-internal-unknown-placeholder', z3.Implies(ok, vd != BV(unknown, 64)))
            elif val is not None:
                ex.prove(o, 'C18/target-address/a-configured-address-is-never-the-internal-unknown-placeholder', z3.Not(ok) if isinstance(val, Opaque) and False else z3.BoolVal(True))
        if not reached:
            ck.add('C18/target-address/reachability/' + label, 'vacuous', 'no path returned a Result')
        for f in ex.findings:
            if not hasattr(f, 'target'):
                f.target = 'configured address'
        ck.absorb(ex, label, outs)
    ck.plans.append(_address_replay_plan)
    ck.bounds['configured-address'] = 'address string of <= 24 bytes through FromStr and through the serde visitor'


def _address_replay_plan(ob):
    if (ob.target or '') != 'configured address' or not ob.label.startswith('C18/target-address/') or ob.finding is None:
        return None
    hx = ((ob.finding.inputs or {}).get('configured_address') or {}).get('hex', '')
    try:
        txt = bytes.fromhex(hx).decode('utf-8')
    except Exception:
        txt = 'unknown'
    cases = [{'driver': 'address', 'args': {'text': t}} for t in dict.fromkeys([txt, 'unknown'])]
    return 'loaders', cases, lambda o: o.get('parsed_as_unknown') is True


# scalars that are long and not ASCII: byte offsets 16 / 32 / 40 / 64 / 80 fall inside a character for one or the other
_LONG = ['\u6f22' * 40, 'a' + '\u00e9' * 60, 'ab' + '\u00e9' * 60, '\U0001f600' * 30, 'abc' + '\u6f22' * 40]
YAML_LONG = ['{name: x, type: "%s"}' % v for v in _LONG] + ['{name: "%s"}' % v for v in _LONG] + ['{name: "%s", type: direct}' % v for v in _LONG[:2]]


YAML_BATTERY = {
    'connectors': ['name: 5', 'name: [a]', '{name: x, type: 5}', '{name: x, type: [1]}', '{name: x, type: {a: b}}', 'name: ~', '{name: direct, type: ~}', '5', '[]', '{}',
                   '{name: true}', '{name: x, type: true}', '{name: 1.5}', '{type: direct}'],
    'listeners': ['name: 5', 'name: [a]', '{name: x, type: 5}', '{name: x, type: [1]}', 'name: ~', '5', '[]', '{}', '{name: true}', '{name: x, type: true}', '{type: http}'],
    'rules': ['target: 5', '{target: x, filter: 5}', '5', '[]', '{}', '{filter: "1 =="}'],
}


def replay_plan(ob):
    t = ob.target or ''
    if ob.label.startswith('C18/'):
        return None
    if re.search(r'(?:^|[^a-z_])(?:load_keys|load_certs)/', ob.label):
        # a panic site inside the TLS key / certificate file loaders: battery of file contents against the real functions
        return 'tls', {'driver': 'tls_files', 'args': {}}, lambda o: bool(o.get('panicked'))
    for key in ('connectors', 'listeners', 'rules'):
        if t.startswith(key + '::'):
            fnname = t.split('::')[1]
            cases = []
            for y in YAML_BATTERY[key] + (YAML_LONG if key in ('connectors', 'listeners') else ['{target: "%s"}' % v for v in _LONG[:2]]):
                doc = y if fnname == 'from_value' else '[%s]' % ('{' + y + '}' if not y.startswith(('{', '[', '5')) else y)
                cases.append({'driver': 'load', 'args': {'which': key, 'fn': fnname, 'yaml': doc}})
            return 'loaders', cases, lambda o: bool(o.get('panicked'))
    return None
