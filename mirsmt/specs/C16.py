"""C16 — every connection accounted exactly once with a truthful record (sequential lifecycle part)."""
import harness
from specs import dispatch, lifecycle, timeouts, relay, accesslog, replies


def run(ck):
    if not ck.load(('bin_off',)):
        return
    import contracts_async  # noqa
    ck.assumptions += ['every await completes; one connection at a time', 'AtomicU64::fetch_add returns distinct values to concurrent callers (contract)']
    ck.out_of_scope += ['byte counters in the splice and frame arms of copy_half', 'live listing / exactly-once logging under concurrency (gc_thread is a spawned task)',
                        'the channel between the gc task and the access-log writer (tokio mpsc)']
    dispatch.spec_process_request(ck)
    lifecycle.spec_ref_ops(ck)
    lifecycle.spec_set_state(ck)
    lifecycle.spec_drop(ck)
    lifecycle.spec_gc_tick(ck)
    timeouts.spec_create_context(ck)
    timeouts.spec_incr(ck, 'incr_sent_bytes')
    timeouts.spec_incr(ck, 'incr_sent_frames')
    ck.plans.append(relay.relay_replay_plan)
    relay.check_copy_half(ck, max_turns=2)
    relay.check_copy_half_abort(ck)
    relay.check_handover(ck)       # early data: what the hand-over forwards is counted too
    ck.plans.append(accesslog.replay_plan)
    accesslog.spec_log_thread(ck, nevents=3 if ck.tier == 'quick' else 4)
    # handshake-failed connections: registered, then given up before they are routed
    replies.spec_socks_handshake(ck, lifecycle=True)
    replies.spec_http_handshake_lifecycle(ck)
    # "with the ... source ... it actually used": the peer address every listener records (shared with C02)
    dispatch.spec_source_address_mapping(ck)
    ck.post_filter = lambda o: o.label.startswith(('C16/', 'C02/source-address/')) or o.status in ('undecided', 'vacuous', 'inconclusive')
