"""C16 — every connection accounted exactly once with a truthful record (sequential lifecycle part)."""
from specs import dispatch, lifecycle, timeouts


def run(ck):
    if not ck.load(('bin_off',)):
        return
    import contracts_async  # noqa
    ck.assumptions += ['every await completes; one connection at a time', 'AtomicU64::fetch_add returns distinct values to concurrent callers (contract)']
    ck.out_of_scope += ['byte counters vs bytes actually relayed (inside copy_half\'s select!)', 'live listing / exactly-once logging under concurrency (gc_thread is a spawned task)',
                        'log rotation', 'access-log writes of the gc task']
    dispatch.spec_process_request(ck)
    lifecycle.spec_ref_ops(ck)
    lifecycle.spec_set_state(ck)
    lifecycle.spec_drop(ck)
    lifecycle.spec_gc_tick(ck)
    timeouts.spec_create_context(ck)
    timeouts.spec_incr(ck, 'incr_sent_bytes')
    timeouts.spec_incr(ck, 'incr_sent_frames')
    ck.post_filter = lambda o: o.label.startswith('C16/') or o.status in ('undecided', 'vacuous', 'inconclusive')
