"""C11 — UDP frame fragmentation/reassembly exact under reordering and duplication."""
import harness
from specs import fragment


def run(ck):
    if not ck.load(('bin_off', 'bin_on')):
        return
    ck.assumptions += [
        'release arithmetic (overflow-checks=off MIR): shifts mask their amount, +,-,* wrap -- except the frame-counter obligation, decided on the overflow-checks=on MIR',
        'HashMap modelled as a lazily initialised finite map (frame condition: untouched keys keep their entries)',
        'VecDeque::partition_point == number of leading elements satisfying the predicate (true for a deque sorted by deadline; sortedness is proved to be preserved by reassemble)',
        'Instant::now returns arbitrary non-decreasing values',
        '<T as Fragmentable>::from_buffer is replaced by a recorder of the delivered bytes (the frame decoder itself is checked under C03/C05)',
    ]
    ck.out_of_scope += [
        'more than 6 fragments on the completing path of reassemble (assemble loop bound); the per-step laws of add_fragment/new/next hold for all totals <= 127',
        'interleavings of several frames beyond what the one-step frame condition gives; the 5 s wall-clock value; loss',
        'panic sites (reported under C05)',
    ]
    fragment.run_all(ck, functional=True)
    fragment.spec_make_fragments_debug_arithmetic(ck)
    # C11 reports only functional obligations; panic sites belong to C05
    ck.post_filter = lambda o: o.label.startswith('C11/') or o.status in ('undecided', 'vacuous', 'inconclusive')
