"""C14 — the management API never blocks the data plane; a stalled client hurts only itself (lock-discipline kernels)."""
import harness
from specs import locks, replies


def run(ck):
    if not ck.load(('bin_off',)):
        return
    import contracts_async  # noqa
    ck.assumptions += ['tokio Mutex / RwLock acquisitions complete; every other await completes (the question decided is what is HELD while awaiting, not whether the await returns)',
                       'a guard is released where the MIR drops it (or mem::drop is called on it)']
    ck.out_of_scope += ['liveness proper: bounded completion time of API requests, fairness of tokio\'s locks, scheduling of >= 3 tasks',
                        'locks other than the live map, the history list, the rule list and the per-connection RwLock', 'listeners other than those using h11c_handshake (HTTP, QUIC)']
    locks.spec_api_handlers(ck)
    locks.spec_http_handshake(ck)
    locks.spec_dispatcher_locks(ck)
    locks.spec_gc_locks(ck)
    # the reply callbacks run under the connection's write lock: they send, they never wait for the client
    replies.spec_socks_callbacks(ck)
    ck.post_filter = lambda o: o.label.startswith('C14/') or o.status in ('undecided', 'vacuous', 'inconclusive')
