"""Specs for the binary address codecs: RPFM frames (src/common/frames.rs), SOCKS5-UDP frames and the
SOCKS4/4a/5 request / reply readers and writers (src/common/socks.rs).  Properties C03, C05, C12, C06(parts)."""
import re
import z3
from values import Int, Bool, UNIT, Agg, Ref, Opaque, Bytes, SeqV, MapV, Stream, BV, simp, concrete, fresh_name
from engine import State, Unsupported
import contracts as C
import contracts_async as CA
from specs.fragment import sym_bytes, prove_bytes_eq

HOSTMAX = 300


def sym_host(ex, st, hint='host', maxlen=HOSTMAX):
    h = Bytes.symbolic(hint, 'string')
    h = Bytes(h._at, h.len, 'string', None, z3.BoolVal(True))
    ex.assume(st, z3.ULE(h.len, BV(maxlen, 64)))
    # String type invariant, restricted to the 1- and 2-byte UTF-8 alphabet (stated bound): every byte is ASCII, or a
    # lead byte C2..DF followed by one continuation byte 80..BF; no other bytes
    def lead(x):
        return z3.And(z3.UGE(x, BV(0xC2, 8)), z3.ULE(x, BV(0xDF, 8)))
    def cont(x):
        return z3.And(z3.UGE(x, BV(0x80, 8)), z3.ULE(x, BV(0xBF, 8)))
    inv = []
    for i in range(maxlen):
        x = h.at(i)
        prev = h.at(i - 1) if i > 0 else None
        ok = z3.Or(z3.ULT(x, BV(0x80, 8)),
                   z3.And(lead(x), z3.ULT(BV(i + 1, 64), h.len), cont(h.at(i + 1))),
                   z3.And(cont(x), lead(prev)) if prev is not None else z3.BoolVal(False))
        inv.append(z3.Implies(z3.ULT(BV(i, 64), h.len), ok))
    ex.assume(st, z3.And(inv))
    ex.host_ascii = getattr(ex, 'host_ascii', []) + [h]
    st.env['utf8_known'] = st.env.get('utf8_known', []) + [(h, z3.BoolVal(True))]
    return h


def sym_target(ex, st, hint='t', allow_unknown=False, maxlen=HOSTMAX):
    """fully symbolic TargetAddress; returns (value, parts dict of z3 terms for model extraction)"""
    vn = ex.si.enums['TargetAddress']
    d = z3.BitVec(fresh_name(hint + '_kind'), 64)
    ex.assume(st, z3.ULT(d, BV(3 if allow_unknown else 2, 64)))
    host = sym_host(ex, st, hint + '_host', maxlen)
    port = Int(z3.BitVec(fresh_name(hint + '_port'), 16), 16)
    sa = CA.sym_socketaddr(ex, st, hint + '_sa')
    iD, iS, iU = vn.index('DomainPort'), vn.index('SocketAddr'), vn.index('Unknown')
    v = Agg('TargetAddress', {}, d, {iD: {0: host, 1: port}, iS: {0: sa}, iU: {}}, vn)
    parts = {'kind': d, 'host': host, 'port': port.t, 'fam': sa.discr,
             'ip4': sa.variants[0][0].fields[0].fields[0].t, 'port4': sa.variants[0][0].fields[1].t,
             'ip6': sa.variants[1][0].fields[0].fields[0], 'port6': sa.variants[1][0].fields[1].t}
    return v, parts


def _discr(v):
    return BV(v.discr, 64) if isinstance(v.discr, int) else v.discr


def ta_eq(ex, a, b):
    """z3 Bool: TargetAddress a == b.  Host equality uses a fresh skolem index, so the result may only be used in
    positions to be PROVED."""
    vn = ex.si.enums['TargetAddress']
    iD, iS = vn.index('DomainPort'), vn.index('SocketAddr')
    da, db = _discr(a), _discr(b)
    conj = [da == db]
    pa, pb = a.variants.get(iD), b.variants.get(iD)
    if pa and pb and 0 in pa and 0 in pb:
        j = z3.BitVec(fresh_name('hj'), 64)
        ha, hb = pa[0], pb[0]
        conj.append(z3.Implies(da == BV(iD, 64), z3.And(ha.len == hb.len, z3.Implies(z3.ULT(j, ha.len), ha.at(j) == hb.at(j)), pa[1].t == pb[1].t)))
    elif (pa is None) != (pb is None):
        conj.append(da != BV(iD, 64))
    sa, sb = a.variants.get(iS), b.variants.get(iS)
    if sa and sb and 0 in sa and 0 in sb:
        conj.append(z3.Implies(da == BV(iS, 64), sockaddr_eq(ex, sa[0], sb[0])))
    elif (sa is None) != (sb is None):
        conj.append(da != BV(iS, 64))
    return z3.And(conj)


def sockaddr_eq(ex, a, b):
    da, db = _discr(a), _discr(b)
    conj = [da == db]
    a4, b4 = a.variants.get(0), b.variants.get(0)
    if a4 and b4:
        conj.append(z3.Implies(da == BV(0, 64), z3.And(a4[0].fields[0].fields[0].t == b4[0].fields[0].fields[0].t, a4[0].fields[1].t == b4[0].fields[1].t)))
    elif (a4 is None) != (b4 is None):
        conj.append(da != BV(0, 64))
    a6, b6 = a.variants.get(1), b.variants.get(1)
    if a6 and b6:
        ia, ib = a6[0].fields[0].fields[0], b6[0].fields[0].fields[0]
        conj.append(z3.Implies(da == BV(1, 64), z3.And(z3.And([ia.at(i) == ib.at(i) for i in range(16)]), a6[0].fields[1].t == b6[0].fields[1].t)))
    elif (a6 is None) != (b6 is None):
        conj.append(da != BV(1, 64))
    return z3.And(conj)


def opt_target_eq(ex, oa, ob):
    """Option<TargetAddress> equality (proved-position only)"""
    da, db = _discr(oa), _discr(ob)
    conj = [da == db]
    pa, pb = oa.variants.get(1), ob.variants.get(1)
    if pa and pb:
        conj.append(z3.Implies(da == BV(1, 64), ta_eq(ex, pa[0], pb[0])))
    elif (pa is None) != (pb is None):
        conj.append(da != BV(1, 64))
    return z3.And(conj)


def mk_frame(ex, st, addr_opt, session_id, body):
    return Agg('Frame', {0: addr_opt, 1: session_id, 2: body})


def is_ok(ex, r):
    return _discr(r) == BV(0, 64)


# =========================================================================== RPFM: decode_address / Frame::from_buffer (no-panic on arbitrary bytes)

def spec_decode_address(ck):
    fn = ck.find(lambda: ck.db.free('decode_address'), 'decode_address')
    if fn is None:
        return
    ex = ck.engine()
    st = State()
    buf = sym_bytes(ex, st, 'attr', 400)
    ex.inputs = {'attr': buf}
    finals = ex.call_fn(st, fn, [buf])
    ck.absorb(ex, 'decode_address', finals)
    ck.bounds['decode_address'] = 'any attribute block of <= 400 bytes'


def spec_from_buffer(ck):
    fn = ck.find(lambda: ck.db.method('Frame', 'from_buffer'), 'Frame::from_buffer')
    ck.find(lambda: ck.db.method('Frame', 'parse_attr'), 'Frame::parse_attr')
    if fn is None:
        return
    ex = ck.engine()
    st = State()
    buf = sym_bytes(ex, st, 'framebuf', 70000)
    ex.inputs = {'framebuf': buf}
    finals = ex.call_fn(st, fn, [buf])
    ck.absorb(ex, 'Frame::from_buffer', finals)
    ck.bounds['Frame::from_buffer'] = 'any buffer of <= 70000 bytes'


def spec_read_head(ck):
    fn = ck.find(lambda: ck.db.method('Frame', 'read_head'), 'Frame::read_head')
    if fn is None:
        return
    ex = ck.engine()
    st = State()
    buf = sym_bytes(ex, st, 'headbuf', 70000)
    cell = st.alloc(buf)
    ex.inputs = {'headbuf': buf}
    finals = ex.call_fn(st, fn, [Ref(cell, ())])
    for s in finals:
        if s.status != 'returned':
            continue
        r = s.ret
        # functional: Ok(None) iff len < 12; Ok(Some(12+attr+body)) iff magic matches
        if isinstance(r.discr, int) and r.discr == 0:
            opt = r.variants[0][0]
            if isinstance(opt.discr, int) and opt.discr == 0:
                ex.prove(s, 'C12/read_head/none-iff-short', z3.ULT(buf.len, BV(12, 64)))
            elif isinstance(opt.discr, int):
                n = opt.variants[1][0]
                exp = BV(12, 64) + z3.ZeroExt(48, z3.Concat(buf.at(8), buf.at(9))) + z3.ZeroExt(48, z3.Concat(buf.at(10), buf.at(11)))
                ex.prove(s, 'C12/read_head/length-is-12+attr+body', n.t == exp)
                ex.prove(s, 'C12/read_head/some-needs-12-bytes', z3.UGE(buf.len, BV(12, 64)))
        elif isinstance(r.discr, int):
            ex.prove(s, 'C12/read_head/err-only-on-bad-magic', z3.And(z3.UGE(buf.len, BV(12, 64)), z3.Concat(buf.at(0), buf.at(1), buf.at(2), buf.at(3)) != BV(0x5250464d, 32)))
    ck.absorb(ex, 'Frame::read_head', finals)
    ck.bounds['Frame::read_head'] = 'any buffer of <= 70000 bytes'


# =========================================================================== RPFM round trip  make_header -> from_buffer

def spec_rpfm_roundtrip(ck, hostmax=HOSTMAX):
    mh = ck.find(lambda: ck.db.method('Frame', 'make_header'), 'Frame::make_header')
    fb = ck.find(lambda: ck.db.method('Frame', 'from_buffer'), 'Frame::from_buffer')
    ck.find(lambda: ck.db.free('encode_address'), 'encode_address')
    ck.find(lambda: ck.db.free('decode_address'), 'decode_address')
    if mh is None or fb is None:
        return
    ex = ck.engine()
    st = State()
    tgt, parts = sym_target(ex, st, 'target', maxlen=hostmax)
    has_addr = z3.Bool('has_addr')
    addr = Agg('Option', {}, simp(z3.If(has_addr, BV(1, 64), BV(0, 64))), {1: {0: tgt}}, ex.si.enums['Option'])
    sid = Int(z3.BitVec('session_id', 32), 32)
    body = sym_bytes(ex, st, 'body', 70000)
    frame = mk_frame(ex, st, addr, sid, body)
    fcell = st.alloc(frame)
    ex.inputs = dict(parts, has_addr=has_addr, session_id=sid, body_len=body.len)
    finals = ex.call_fn(st, mh, [Ref(fcell, ())])
    ck.absorb(ex, 'Frame::make_header', finals)
    iD = ex.si.enums['TargetAddress'].index('DomainPort')
    n = 0
    for s in finals:
        if s.status != 'returned':
            continue
        header = s.ret
        wire = header.concat(body, 'bytes')
        s2 = s.fork()
        s2.frames = []
        s2.status = 'running'
        outs = ex.call_fn(s2, fb, [wire])
        ck.absorb(ex, 'Frame::from_buffer(make_header)', outs)
        for o in outs:
            if o.status != 'returned':
                continue
            n += 1
            r = o.ret
            host = parts['host']
            representable = z3.And(z3.Or(z3.Not(has_addr), parts['kind'] != BV(iD, 64), z3.ULE(host.len, BV(253, 64))),
                                   z3.ULE(body.len, BV(65535, 64)))
            okd = is_ok(ex, r)
            fr2 = r.variants.get(0, {}).get(0)
            # (1) whatever was sent: the receiver gets an error or exactly the same destination -- never another one
            if fr2 is not None:
                same = z3.And(opt_target_eq(ex, fr2.fields[0], addr), fr2.fields[1].t == sid.t)
                long_host = z3.And(has_addr, parts['kind'] == BV(iD, 64), z3.UGT(host.len, BV(253, 64)))
                ex.prove(o, 'C03/rpfm/decoded-destination-equals-sent-or-error', z3.Implies(z3.And(okd, z3.Not(long_host)), same))
                # hosts that do not fit the one-byte length field (a separate obligation so that the recorded finding
                # about them cannot hide any other way of corrupting a destination)
                ex.prove(o, 'C03/rpfm/overlong-host-refused-not-truncated', z3.Implies(z3.And(okd, long_host), same))
                j = z3.BitVec(fresh_name('bj'), 64)
                b2 = fr2.fields[2]
                ex.prove(o, 'C03/rpfm/body-not-mixed-with-address',
                         z3.Implies(z3.And(okd, representable), z3.And(b2.len == body.len, z3.Implies(z3.ULT(j, body.len), b2.at(j) == body.at(j)))))
            # (2) every representable destination survives
            ex.prove(o, 'C03/rpfm/representable-destination-accepted', z3.Implies(representable, okd))
    ck.bounds['rpfm-roundtrip'] = 'all TargetAddress values (IPv4/IPv6 any address+port; domain any bytes, len <= %d), any session id, body <= 70000 bytes' % hostmax


# =========================================================================== SOCKS5-UDP frames

def spec_decode_socks_frame(ck):
    fn = ck.find(lambda: ck.db.free('decode_socks_frame'), 'decode_socks_frame')
    if fn is None:
        return
    ex = ck.engine()
    st = State()
    body = sym_bytes(ex, st, 'udp_datagram', 70000)
    frame = mk_frame(ex, st, C.mk_option(ex, None), Int(BV(0, 32), 32), body)
    ex.inputs = {'udp_datagram': body}
    finals = ex.call_fn(st, fn, [frame])
    ck.absorb(ex, 'decode_socks_frame', finals)
    ck.bounds['decode_socks_frame'] = 'any datagram of <= 70000 bytes'


def spec_socks_udp_roundtrip(ck, hostmax=HOSTMAX):
    enc = ck.find(lambda: ck.db.free('encode_socks_frame'), 'encode_socks_frame')
    dec = ck.find(lambda: ck.db.free('decode_socks_frame'), 'decode_socks_frame')
    if enc is None or dec is None:
        return
    ex = ck.engine()
    st = State()
    tgt, parts = sym_target(ex, st, 'target', allow_unknown=True, maxlen=hostmax)
    has_addr = z3.Bool('has_addr')
    addr = Agg('Option', {}, simp(z3.If(has_addr, BV(1, 64), BV(0, 64))), {1: {0: tgt}}, ex.si.enums['Option'])
    body = sym_bytes(ex, st, 'body', 66000)
    frame = mk_frame(ex, st, addr, Int(z3.BitVec('session_id', 32), 32), body)
    ex.inputs = dict(parts, has_addr=has_addr, body_len=body.len)
    finals = ex.call_fn(st, enc, [frame])
    ck.absorb(ex, 'encode_socks_frame', finals)
    vn = ex.si.enums['TargetAddress']
    iD, iU = vn.index('DomainPort'), vn.index('Unknown')
    for s in finals:
        if s.status != 'returned':
            continue
        r = s.ret
        host = parts['host']
        representable = z3.And(has_addr, parts['kind'] != BV(iU, 64), z3.Or(parts['kind'] != BV(iD, 64), z3.ULE(host.len, BV(255, 64))))
        enc_ok = is_ok(ex, r)
        ex.prove(s, 'C03/socks-udp/unrepresentable-destination-refused', z3.Implies(z3.Not(representable), z3.Not(enc_ok)))
        ex.prove(s, 'C03/socks-udp/representable-destination-accepted', z3.Implies(representable, enc_ok))
        wire = r.variants.get(0, {}).get(0)
        if wire is None:
            continue
        s2 = s.fork()
        s2.frames = []
        s2.status = 'running'
        try:
            ex.assume(s2, enc_ok)
        except Exception:
            continue
        f2 = mk_frame(ex, s2, C.mk_option(ex, None), Int(BV(0, 32), 32), wire)
        outs = ex.call_fn(s2, dec, [f2])
        ck.absorb(ex, 'decode_socks_frame(encode_socks_frame)', outs)
        for o in outs:
            if o.status != 'returned':
                continue
            r2 = o.ret
            ok2 = is_ok(ex, r2)
            ex.prove(o, 'C03/socks-udp/encoded-frame-decodes', ok2)
            fr2 = r2.variants.get(0, {}).get(0)
            if fr2 is not None:
                ex.prove(o, 'C03/socks-udp/decoded-destination-equals-sent', z3.Implies(ok2, opt_target_eq(ex, fr2.fields[0], addr)))
                j = z3.BitVec(fresh_name('bj'), 64)
                b2 = fr2.fields[2]
                ex.prove(o, 'C03/socks-udp/payload-exact', z3.Implies(ok2, z3.And(b2.len == body.len, z3.Implies(z3.ULT(j, body.len), b2.at(j) == body.at(j)))))
    ck.bounds['socks-udp-roundtrip'] = 'all TargetAddress values (domain len <= %d), payload <= 66000 bytes' % hostmax


# =========================================================================== native replay plans

def _hx(v):
    return v['hex'] if isinstance(v, dict) else ''


def _target_args(inp):
    a = {'has_addr': inp.get('has_addr', True), 'kind': inp.get('kind', 0), 'host': _hx(inp.get('host', {})), 'port': inp.get('port', 0),
         'fam': inp.get('fam', 0), 'ip4': inp.get('ip4', 0), 'port4': inp.get('port4', 0), 'ip6': _hx(inp.get('ip6', {})) or '00' * 16,
         'port6': inp.get('port6', 0), 'session_id': inp.get('session_id', 0), 'body_len': inp.get('body_len', 0)}
    return a


def _host_is_text(inp):
    try:
        bytes.fromhex(_hx(inp.get('host', {}))).decode('utf-8')
        return True
    except Exception:
        return False


def replay_plan(ob):
    f = ob.finding
    if f is None:
        return None
    inp = f.inputs
    lab = ob.label
    t = ob.target or ''
    panicked = lambda o: bool(o.get('panicked'))
    if lab.startswith('C03/rpfm/') and 'kind' in inp and _host_is_text(inp):
        case = {'driver': 'rpfm_roundtrip', 'args': _target_args(inp)}
        hostlen = inp.get('host', {}).get('len', 0) if inp.get('kind') == 0 and inp.get('has_addr') else 0
        representable = hostlen <= 253 and inp.get('body_len', 0) <= 65535
        if 'representable-destination-accepted' in lab:
            return 'frames', case, lambda o: representable and not o.get('panicked') and o.get('ok') is False
        if 'decoded-destination-equals-sent-or-error' in lab or 'overlong-host-refused-not-truncated' in lab:
            return 'frames', case, lambda o: not o.get('panicked') and o.get('ok') and not (o.get('same_addr') and o.get('same_sid'))
        if 'body-not-mixed' in lab:
            return 'frames', case, lambda o: representable and not o.get('panicked') and o.get('ok') and not o.get('same_body')
    if lab.startswith('C03/socks-udp/') and 'kind' in inp and _host_is_text(inp):
        case = {'driver': 'socks_udp_roundtrip', 'args': _target_args(inp)}
        hostlen = inp.get('host', {}).get('len', 0) if inp.get('kind') == 0 else 0
        representable = inp.get('has_addr') and inp.get('kind') != 2 and hostlen <= 255
        if 'unrepresentable-destination-refused' in lab:
            return 'socks', case, lambda o: (not representable) and not o.get('panicked') and o.get('enc_ok')
        if 'representable-destination-accepted' in lab:
            return 'socks', case, lambda o: representable and not o.get('panicked') and not o.get('enc_ok')
        if 'encoded-frame-decodes' in lab:
            return 'socks', case, lambda o: not o.get('panicked') and o.get('enc_ok') and not o.get('dec_ok')
        if 'decoded-destination-equals-sent' in lab:
            return 'socks', case, lambda o: not o.get('panicked') and o.get('dec_ok') and not o.get('same_addr')
        if 'payload-exact' in lab:
            return 'socks', case, lambda o: not o.get('panicked') and o.get('dec_ok') and not o.get('same_body')
    m = re.match(r'^C(?:03|12)/socksv(\d)-request/(.*)$', lab)
    if m and 'kind' in inp and _host_is_text(inp):
        ver = int(m.group(1))
        args = _target_args(inp)
        args.update({'version': ver, 'cmd': inp.get('cmd', 1), 'server_reply': _hx(inp.get('server_reply', {})) or '', 'chunk': 0,
                     'tail': _hx(inp.get('pipelined_payload', {})) or '746169 6c'.replace(' ', '')})
        # the segmentation chosen by the solver is not part of the replayed input: try whole-message and small chunks
        case = [{'driver': 'request_roundtrip', 'args': dict(args, chunk=c)} for c in (0, 1, 2, 3, 5, 7)]
        what = m.group(2)
        if what == 'unrepresentable-destination-refused':
            return 'socks', case, lambda o: not o.get('panicked') and o.get('write_ok') is True
        if what == 'destination-read-equals-destination-written':
            return 'socks', case, lambda o: not o.get('panicked') and o.get('read_ok') and not (o.get('same_target') and o.get('same_cmd'))
        if what == 'written-request-is-readable':
            return 'socks', case, lambda o: not o.get('panicked') and o.get('write_ok') and o.get('read_ok') is False
        if what == 'reader-leaves-exactly-the-following-bytes':
            return 'socks', case, lambda o: not o.get('panicked') and o.get('read_ok') and o.get('rest_is_tail') is False
    if lab == 'C12/socks-request/truncated-input-is-an-error' and 'client_bytes' in inp:
        case = {'driver': 'read_request', 'args': {'input': _hx(inp['client_bytes']), 'chunk': 0}}
        if 'auth_required' in inp:
            case['args']['auth_required'] = inp['auth_required']
        return 'socks', case, lambda o: not o.get('panicked') and o.get('ok') is True
    if lab == 'C12/socks-reply/truncated-input-is-an-error' and 'upstream_bytes' in inp:
        case = {'driver': 'read_response', 'args': {'input': _hx(inp['upstream_bytes']), 'chunk': 0}}
        return 'socks', case, lambda o: not o.get('panicked') and o.get('ok') is True
    if (lab.startswith('C05/stream-frames/') or t == 'Frame::from_buffer(complete frame)') and 'frame_bytes' in inp:
        case = {'driver': 'stream_read', 'args': {'stream': _hx(inp['frame_bytes']), 'chunks': [], 'reads': 1}}
        return 'frames', case, panicked
    if lab.startswith('C12/stream-frames/'):
        # the segmentation found by the solver is not replayed literally: the native driver delivers two glued frames
        # whole, at every 2-piece cut and byte by byte and compares the decoded frames (any difference confirms)
        return 'frames', {'driver': 'stream_battery', 'args': {}}, lambda o: bool(o.get('mismatch')) or bool(o.get('panicked'))
    if t == 'StreamFrameReader::read' and 'stream' in inp:
        st_ = bytes.fromhex(_hx(inp['stream']))[inp.get('frame_start', 0):]
        if isinstance(inp.get('failing_frame'), dict):
            st_ = bytes.fromhex(inp['failing_frame'].get('hex', ''))
        case = {'driver': 'stream_read', 'args': {'stream': st_.hex(), 'chunks': [x for x in inp.get('read_sizes', []) if isinstance(x, int)], 'reads': 1}}
        return 'frames', case, panicked
    if t.startswith('SocksRequest::read_from') and 'client_bytes' in inp:
        case = {'driver': 'read_request', 'args': {'input': _hx(inp['client_bytes']), 'chunk': 0}}
        if 'auth_required' in inp:
            case['args']['auth_required'] = inp['auth_required']
        return 'socks', case, panicked
    if t == 'SocksResponse::read_from' and 'upstream_bytes' in inp:
        return 'socks', {'driver': 'read_response', 'args': {'input': _hx(inp['upstream_bytes']), 'chunk': 0}}, panicked
    if t == 'decode_address' and 'attr' in inp:
        return 'frames', {'driver': 'decode_address', 'args': {'attr': _hx(inp['attr'])}}, panicked
    if t == 'Frame::from_buffer' and 'framebuf' in inp:
        return 'frames', {'driver': 'from_buffer', 'args': {'framebuf': _hx(inp['framebuf'])}}, panicked
    if t == 'Frame::read_head' and 'headbuf' in inp:
        return 'frames', {'driver': 'read_head', 'args': {'headbuf': _hx(inp['headbuf'])}}, panicked
    if t == 'decode_socks_frame' and 'udp_datagram' in inp:
        return 'socks', {'driver': 'decode_socks_frame', 'args': {'udp_datagram': _hx(inp['udp_datagram'])}}, panicked
    if t.startswith('Frame::from_buffer(make_header)') or t == 'Frame::make_header':
        if 'kind' in inp and _host_is_text(inp):
            return 'frames', {'driver': 'rpfm_roundtrip', 'args': _target_args(inp)}, panicked
    if t.startswith('decode_socks_frame(encode') or t == 'encode_socks_frame':
        if 'kind' in inp and _host_is_text(inp):
            return 'socks', {'driver': 'socks_udp_roundtrip', 'args': _target_args(inp)}, panicked
    return None


# =========================================================================== async helpers

def run_async(ex, st, fn, args, tybind=None):
    """call an `async fn` (or async_trait method) and drive the returned future to completion under the
    'every await completes' semantics.  returns list of (state, output value)"""
    st.frames = []
    st.status = 'running'
    ex.push_frame(st, fn, args, None, None, tybind)
    pre = ex.run(st)
    results = []
    for s in pre:
        if s.status != 'returned':
            results.append((s, None))
            continue
        fut = s.ret
        results += poll_to_completion(ex, s, fut, tybind)
    return results


def poll_to_completion(ex, s, fut, tybind=None):
    v = fut
    cell = None
    if isinstance(v, Ref):
        cell, path = v.cell, v.path
        v = ex.load(s, cell, path)
    else:
        cell, path = s.alloc(v), ()
    if not (isinstance(v, Agg) and v.name.startswith(('{coroutine@', '{async'))):
        raise Unsupported('not a coroutine: %r' % (v,))
    body = ex.db.coroutine_body(v)
    if body is None:
        raise Unsupported('coroutine body not found: ' + v.name)
    s.frames = []
    s.status = 'running'
    ex.push_frame(s, body, [Ref(cell, path), Opaque('Context', 'cx')], None, None, tybind)
    outs = ex.run(s)
    res = []
    for o in outs:
        if o.status != 'returned':
            res.append((o, None))
            continue
        p = o.ret
        if isinstance(p, Agg) and p.name == 'Poll' and (p.discr == 0 or concrete(p.discr) == 0):
            res.append((o, p.variants[0][0]))
        else:
            o.notes.append('poll did not return Ready: %r' % (p,))
            o.status = 'cut'
            res.append((o, None))
    return res


def new_stream(ex, st, name, inp):
    cell = st.alloc(Stream(name, inp))
    return cell


def stream(st, cell):
    return st.mem[cell]


# =========================================================================== SOCKS request: writer -> reader

def _ok_payload(r):
    """(is_ok z3 Bool, ok value or None)"""
    d = r.discr
    if isinstance(d, int):
        return z3.BoolVal(d == 0), r.variants.get(0, {}).get(0)
    return d == BV(0, 64), r.variants.get(0, {}).get(0)


def _is_err_concrete(r):
    d = r.discr if isinstance(r.discr, int) else concrete(r.discr)
    return d == 1


def host_has_byte(host, byte, bound):
    return z3.Or([z3.And(z3.ULT(BV(i, 64), host.len), host.at(i) == BV(byte, 8)) for i in range(bound)])


def spec_socks_request_roundtrip(ck, version, hostmax=HOSTMAX):
    wt = ck.find(lambda: ck.db.method('SocksRequest', 'write_to'), 'SocksRequest::write_to')
    rf = ck.find(lambda: ck.db.method('SocksRequest', 'read_from'), 'SocksRequest::read_from')
    for m in ('write_v4', 'write_v5', 'read_v4', 'read_v5'):
        ck.find(lambda m=m: ck.db.method('SocksRequest', m, closure='{closure#0}'), 'SocksRequest::' + m)
    ck.find(lambda: ck.db.free('read_length_and_string', closure='{closure#0}'), 'read_length_and_string')
    ck.find(lambda: ck.db.free('read_null_terminated_string', closure='{closure#0}'), 'read_null_terminated_string')
    if wt is None or rf is None:
        return
    tag = 'v%d' % version
    ex = ck.engine(loop_bound=8)
    ex.scan_bound = hostmax + 2
    # a reader written over fill_buf / consume sees what the writer sent split at an arbitrary point (the tail that follows the
    # message is part of "what is there"): the message must come out the same and the tail must stay
    ex.fill_buf_mode = 'split-once'
    ex.type_bindings.update({'A': 'NoAuth', 'T': '()'})
    st = State()
    tgt, parts = sym_target(ex, st, 'target', maxlen=hostmax)
    cmd = Int(z3.BitVec('cmd', 8), 8)
    req = Agg('SocksRequest', {0: Int(BV(version, 8), 8), 1: cmd, 2: tgt, 3: UNIT})
    rcell = st.alloc(req)
    reply = sym_bytes(ex, st, 'server_negotiation_reply', 8)
    wcell = new_stream(ex, st, 'upstream', reply)
    ex.inputs = dict(parts, cmd=cmd, server_reply=reply)
    vn = ex.si.enums['TargetAddress']
    iD, iS = vn.index('DomainPort'), vn.index('SocketAddr')
    host = parts['host']
    is_dom = parts['kind'] == BV(iD, 64)
    if version == 5:
        representable = z3.Or(z3.Not(is_dom), z3.ULE(host.len, BV(255, 64)))
        in_scope = z3.BoolVal(True)
    else:
        no_nul = z3.Not(host_has_byte(host, 0, hostmax))
        v4ok = parts['fam'] == BV(0, 64)
        representable = z3.If(is_dom, no_nul, v4ok)
        # IPv4 0.0.0.0/24 is SOCKS4a's own escape range, not an address of the protocol: neither refusal nor acceptance is demanded
        in_scope = z3.Or(is_dom, parts['fam'] != BV(0, 64), z3.UGE(parts['ip4'], BV(0x100, 32)))
    outs = run_async(ex, st, wt, [Ref(rcell, ()), Ref(wcell, ()), Opaque('NoAuth', 'auth')])
    nwire = 0
    for s, res in outs:
        if res is None or s.status != 'returned':
            continue
        okw, _ = _ok_payload(res)
        strm = stream(s, wcell)
        # refusal is mandatory for unrepresentable destinations, acceptance for representable ones (given a cooperative peer)
        ex.prove(s, 'C03/socks%s-request/unrepresentable-destination-refused' % tag, z3.Implies(z3.And(in_scope, z3.Not(representable)), z3.Not(okw)))
        if _is_err_concrete(res):
            continue
        ex.prove(s, 'C06/socks%s-request/all-written-bytes-flushed' % tag, strm.flushed == strm.out.len)
        wire = strm.out
        tail = sym_bytes(ex, s, 'pipelined_payload', 64)
        s2 = s.fork()
        rcell2 = new_stream(ex, s2, 'client', wire.concat(tail, 'bytes'))
        s2.env['inputs'] = dict(s2.env.get('inputs', {}), pipelined_payload=tail)
        routs = run_async(ex, s2, rf, [Ref(rcell2, ()), Opaque('NoAuth', 'auth')])
        for o, r2 in routs:
            if r2 is None or o.status != 'returned':
                continue
            nwire += 1
            ok2, req2 = _ok_payload(r2)
            ex.prove(o, 'C03/socks%s-request/written-request-is-readable' % tag, z3.Implies(z3.And(in_scope, representable), ok2))
            if req2 is not None:
                ex.prove(o, 'C03/socks%s-request/destination-read-equals-destination-written' % tag,
                         z3.Implies(z3.And(ok2, in_scope), z3.And(ta_eq(ex, req2.fields[2], tgt), req2.fields[1].t == cmd.t)))
                ex.prove(o, 'C12/socks%s-request/reader-leaves-exactly-the-following-bytes' % tag,
                         z3.Implies(z3.And(ok2, representable, in_scope), stream(o, rcell2).pos == wire.len))
    ck.absorb(ex, 'SocksRequest::write_to(v%d)->read_from' % version, [s for s, _ in outs])
    ck.bounds['socks%s-request-roundtrip' % tag] = ('all destinations (domain <= %d bytes any content, any IPv4/IPv6, any port), any cmd, NoAuth, '
                                                    'any 8-byte server negotiation reply, 64 bytes of pipelined payload behind the request' % hostmax)


def spec_socks_request_reader(ck, auth='NoAuth', inmax=600):
    rf = ck.find(lambda: ck.db.method('SocksRequest', 'read_from'), 'SocksRequest::read_from')
    if rf is None:
        return
    ex = ck.engine(loop_bound=8)
    ex.scan_bound = 40
    ex.fill_buf_mode = 'split-once'      # a reader written over fill_buf/consume sees the input split at an arbitrary point
    st = State()
    inp = sym_bytes(ex, st, 'client_bytes', inmax)
    c = new_stream(ex, st, 'client', inp)
    ex.inputs = {'client_bytes': inp}
    if auth == 'NoAuth':
        ex.type_bindings.update({'A': 'NoAuth', 'T': '()'})
        a = Opaque('NoAuth', 'auth')
    else:
        ex.type_bindings.update({'A': 'PasswordAuth', 'T': 'Option<(String, String)>'})
        required = z3.Bool('auth_required')
        ex.inputs['auth_required'] = required
        a = Agg('PasswordAuth', {0: Bool(required)})
    outs = run_async(ex, st, rf, [Ref(c, ()), a])
    for s, r in outs:
        if r is None or s.status != 'returned':
            continue
        ok, req = _ok_payload(r)
        eofs = [e for e in s.trace if e[0] == 'eof']
        ex.prove(s, 'C12/socks-request/truncated-input-is-an-error', z3.Implies(ok, len(eofs) == 0))
        if auth != 'NoAuth':
            _auth_obligations(ck, ex, s, r, inp, required)
    ck.absorb(ex, 'SocksRequest::read_from(%s)' % auth, [s for s, _ in outs])
    ck.bounds['socks-request-reader(%s)' % auth] = 'any client byte string <= %d bytes; NUL-terminated fields <= 40 bytes' % inmax


def _auth_obligations(ck, ex, s, r, inp, required):
    """C07: method selection on the real handshake"""
    ok, req = _ok_payload(r)
    strm = [v for v in s.mem.values() if isinstance(v, Stream)][0]
    # version 5 path: first byte 5, nmethods = inp[1], methods inp[2..]
    is_v5 = inp.at(0) == BV(5, 8)
    out = strm.out
    if req is not None and not _is_err_concrete(r):
        auth = req.fields[3]   # Option<(String,String)>
        has_creds = _discr(auth) == BV(1, 64)
        ex.prove(s, 'C07/socks5/required-implies-credentials-presented', z3.Implies(z3.And(ok, required), has_creds))
        ex.prove(s, 'C07/socks5/selected-method-never-none-when-required',
                 z3.Implies(z3.And(ok, is_v5, required, z3.UGE(out.len, BV(2, 64))), out.at(1) != BV(0, 8)))
        # selected method was offered by the client
        n = z3.ZeroExt(56, inp.at(1))
        k = z3.BitVec(fresh_name('mk'), 64)
        offered = z3.Or([z3.And(z3.ULT(BV(i, 64), n), inp.at(2 + i) == out.at(1)) for i in range(16)])
        ex.prove(s, 'C07/socks5/selected-method-was-offered', z3.Implies(z3.And(ok, is_v5, z3.ULE(n, BV(16, 64)), z3.UGE(out.len, BV(2, 64))), offered))


# =========================================================================== SOCKS reply: writer -> reader  (+ C06 reply codes)

def spec_socks_response_roundtrip(ck, version, hostmax=HOSTMAX):
    wt = ck.find(lambda: ck.db.method('SocksResponse', 'write_to'), 'SocksResponse::write_to')
    rf = ck.find(lambda: ck.db.method('SocksResponse', 'read_from'), 'SocksResponse::read_from')
    for m in ('write_v4', 'write_v5', 'read_v4', 'read_v5'):
        ck.find(lambda m=m: ck.db.method('SocksResponse', m, closure='{closure#0}'), 'SocksResponse::' + m)
    if wt is None or rf is None:
        return
    tag = 'v%d' % version
    ex = ck.engine(loop_bound=8)
    ex.fill_buf_mode = 'split-once'
    st = State()
    tgt, parts = sym_target(ex, st, 'bind', maxlen=hostmax)
    cmd = Int(z3.BitVec('reply_code', 8), 8)
    resp = Agg('SocksResponse', {0: Int(BV(version, 8), 8), 1: cmd, 2: tgt})
    rcell = st.alloc(resp)
    wcell = new_stream(ex, st, 'client', Bytes.from_terms([]))
    ex.inputs = dict(parts, reply_code=cmd)
    if version == 4:
        # caller-guaranteed: a SOCKS4 reply carries the request's own target (IPv4 or domain) or 0.0.0.0:0, never IPv6
        ex.assume(st, z3.Not(z3.And(parts['kind'] == BV(ex.si.enums['TargetAddress'].index('SocketAddr'), 64), parts['fam'] == BV(1, 64))))
    outs = run_async(ex, st, wt, [Ref(rcell, ()), Ref(wcell, ())])
    vn = ex.si.enums['TargetAddress']
    iD = vn.index('DomainPort')
    for s, res in outs:
        if res is None or s.status != 'returned':
            continue
        okw, _ = _ok_payload(res)
        strm = stream(s, wcell)
        wire = strm.out
        # C06: a reply is complete or absent -- never a flushed or unflushed fragment of one
        ex.prove(s, 'C06/socks%s-reply/failed-write-leaves-no-partial-reply' % tag, z3.Implies(z3.Not(okw), wire.len == BV(0, 64)))
        if _is_err_concrete(res):
            continue
        ex.prove(s, 'C06/socks%s-reply/all-written-bytes-flushed' % tag, strm.flushed == wire.len)
        if version == 5:
            ex.prove(s, 'C06/socks5-reply/code-byte-is-the-verdict', z3.And(wire.at(0) == BV(5, 8), wire.at(1) == cmd.t))
        else:
            ex.prove(s, 'C06/socks4-reply/90-iff-success', z3.And(wire.at(0) == BV(0, 8), (wire.at(1) == BV(90, 8)) == (cmd.t == BV(0, 8)),
                                                                   z3.Or(wire.at(1) == BV(90, 8), wire.at(1) == BV(91, 8))))
        s2 = s.fork()
        tail = sym_bytes(ex, s2, 'tunnel_bytes', 32)
        rcell2 = new_stream(ex, s2, 'upstream', wire.concat(tail, 'bytes'))
        routs = run_async(ex, s2, rf, [Ref(rcell2, ())])
        for o, r2 in routs:
            if r2 is None or o.status != 'returned':
                continue
            ok2, resp2 = _ok_payload(r2)
            host_ok = z3.Or(parts['kind'] != BV(iD, 64), z3.ULE(parts['host'].len, BV(255, 64)))
            ex.prove(o, 'C06/socks%s-reply/written-reply-is-readable' % tag, z3.Implies(host_ok, ok2))
            if resp2 is not None:
                if version == 5:
                    ex.prove(o, 'C06/socks5-reply/verdict-survives', z3.Implies(ok2, resp2.fields[1].t == cmd.t))
                else:
                    ex.prove(o, 'C06/socks4-reply/verdict-survives', z3.Implies(ok2, (resp2.fields[1].t == BV(0, 8)) == (cmd.t == BV(0, 8))))      # success is 0 on both sides of the wire (90 on it)
                ex.prove(o, 'C12/socks%s-reply/reader-leaves-exactly-the-following-bytes' % tag,
                         z3.Implies(z3.And(ok2, host_ok), stream(o, rcell2).pos == wire.len))
    ck.absorb(ex, 'SocksResponse::write_to(v%d)->read_from' % version, [s for s, _ in outs])
    ck.bounds['socks%s-reply-roundtrip' % tag] = 'any reply code, any bind address (domain <= %d bytes), 32 tunnel bytes glued behind the reply' % hostmax


def spec_socks_response_reader(ck, inmax=400):
    rf = ck.find(lambda: ck.db.method('SocksResponse', 'read_from'), 'SocksResponse::read_from')
    if rf is None:
        return
    ex = ck.engine(loop_bound=8)
    ex.fill_buf_mode = 'split-once'
    st = State()
    inp = sym_bytes(ex, st, 'upstream_bytes', inmax)
    c = new_stream(ex, st, 'upstream', inp)
    ex.inputs = {'upstream_bytes': inp}
    outs = run_async(ex, st, rf, [Ref(c, ())])
    for s, r in outs:
        if r is None or s.status != 'returned':
            continue
        ok, _ = _ok_payload(r)
        eofs = [e for e in s.trace if e[0] == 'eof']
        ex.prove(s, 'C12/socks-reply/truncated-input-is-an-error', z3.Implies(ok, len(eofs) == 0))
    ck.absorb(ex, 'SocksResponse::read_from', [s for s, _ in outs])
    ck.bounds['socks-reply-reader'] = 'any upstream byte string <= %d bytes' % inmax


# =========================================================================== StreamFrameReader::read under arbitrary segmentation

def stream_reader_representation_known(ck):
    """the one-step spec below injects an arbitrary reader state as {inner, remaining: Option<BytesMut>}"""
    f = ck.si.structs.get('StreamFrameReader')
    t = getattr(ck.si, 'struct_types', {}).get('StreamFrameReader', {})
    return f == ['inner', 'remaining'] and t.get('remaining', '').replace(' ', '') == 'Option<BytesMut>'


def spec_stream_frame_reader_history(ck, nreads=4):
    """representation-independent: a reader made by the real StreamFrameReader::new over a stream that holds exactly TWO
    well-formed frames (attribute and body lengths 0..3 each) delivered in <= nreads pieces of arbitrary sizes; read() is called
    three times: the first frame's bytes are decoded, then the second's, then end of stream -- whatever the segmentation."""
    from specs.fragment import prove_bytes_eq
    rd = ck.find(lambda: ck.db.method('StreamFrameReader', 'read', trait='FrameReader'), 'StreamFrameReader::read')
    new = ck.find(lambda: ck.db.method('StreamFrameReader', 'new'), 'StreamFrameReader::new')
    if rd is None or new is None:
        return
    ex = ck.engine(loop_bound=nreads + 3)
    ex.read_budget = nreads
    ex.type_bindings.update({'T': 'Stream'})

    def fb_summary(ctx):
        b = ctx.ex.deref(ctx.st, ctx.args[0])
        fr = Agg('Frame', {0: Opaque('Option<TargetAddress>', 'addr'), 1: Int(z3.BitVec(fresh_name('sid'), 32), 32), 2: Bytes.symbolic('fbody')})
        ctx.st.trace.append(('from_buffer', b, fr))
        return C.mk_result(ctx.ex, ok=fr)
    ex.overrides.append((re.compile(r'(?:^|::)Frame::from_buffer$'), fb_summary))
    st = State()
    S = sym_bytes(ex, st, 'stream', 2 * (12 + 6))
    MAGIC = BV(0x5250464d, 32)

    def need_at(off):
        return BV(12, 64) + z3.ZeroExt(48, z3.Concat(S.at(off + 8), S.at(off + 9))) + z3.ZeroExt(48, z3.Concat(S.at(off + 10), S.at(off + 11)))

    def wf(off):
        a = z3.Concat(S.at(off + 8), S.at(off + 9))
        b = z3.Concat(S.at(off + 10), S.at(off + 11))
        return z3.And(z3.Concat(S.at(off), S.at(off + 1), S.at(off + 2), S.at(off + 3)) == MAGIC, z3.ULE(a, BV(3, 16)), z3.ULE(b, BV(3, 16)))
    n1 = simp(need_at(BV(0, 64)))
    ex.assume(st, wf(BV(0, 64)))
    ex.assume(st, wf(n1))
    n2 = simp(need_at(n1))
    ex.assume(st, S.len == n1 + n2)
    ex.inputs = {'stream': S}
    starts = [BV(0, 64), n1]
    needs = [n1, n2]
    outs0 = ex.call_fn(st, new, [Stream('peer', S)])
    allf = list(outs0)
    frontier = []
    for o in outs0:
        if o.status == 'returned':
            cell = o.alloc(o.ret)
            frontier.append((o, cell))
    reached = 0
    for k in range(3):
        nxt = []
        for s, cell in frontier:
            s2 = s.fork()
            n0 = len(s2.trace)
            for o, r in run_async(ex, s2, rd, [Ref(cell, ())]):
                allf.append(o)
                if o.status != 'returned' or r is None:
                    continue
                o.env['inputs'] = dict(o.env.get('inputs', {}), read_sizes=[Int(x, 64) for x in o.env.get('read_sizes', [])])
                ok, opt = _ok_payload(r)
                calls = [e for e in o.trace[n0:] if e[0] == 'from_buffer']
                some = z3.BoolVal(False)
                if isinstance(opt, Agg) and opt.discr is not None:
                    some = _discr(opt) == BV(1, 64)
                reached += 1
                if k < 2:
                    ex.prove(o, 'C12/stream-frames/history/each-frame-comes-out-once-in-order', z3.And(ok, some, z3.BoolVal(len(calls) == 1)))
                    if len(calls) == 1:
                        prove_bytes_eq(ex, o, 'C12/stream-frames/history/decoded-bytes-are-exactly-that-frame', calls[0][1], S.slice(starts[k], needs[k]))
                        nxt.append((o, cell))
                else:
                    ex.prove(o, 'C12/stream-frames/history/end-of-stream-after-the-last-frame', z3.And(ok, z3.Not(some), z3.BoolVal(len(calls) == 0)))
        frontier = nxt
    if not reached:
        ck.add('C12/stream-frames/history/reachability', 'vacuous', 'read() never returned in the model')
    for f in ex.findings:
        if not hasattr(f, 'target'):
            f.target = 'stream frame reader history'
    ck.absorb(ex, 'StreamFrameReader::read x3 (two frames)', allf)
    ck.bounds['stream-frame-reader-history'] = 'a fresh reader, two well-formed frames (attribute / body lengths 0..3) in <= %d pieces of any sizes, three read() calls' % nreads


def spec_stream_frame_reader(ck, nreads=3, with_history=False):
    """one read() call from an ARBITRARY reader state (carry-over buffer = any already-delivered prefix of the rest of
    the stream), the stream delivered by <= nreads reads of arbitrary positive sizes.  Covers call sequences by induction.
    Frame::from_buffer is summarised during this exploration (assume/guarantee): it is called on some buffer B and its
    result is returned unchanged; the guarantees checked are (a) B is exactly the next frame's bytes, (b) the carry-over
    is exactly the delivered-but-unread suffix, (c) [separately, with the real from_buffer] decoding such a B never fails
    -- which is what the unwrap() in read() relies on."""
    known = stream_reader_representation_known(ck)
    if with_history or not known:
        spec_stream_frame_reader_history(ck, nreads=3 if ck.tier == 'quick' else 4)
    if not known:
        ck.notes.append('StreamFrameReader is not {inner, remaining: Option<BytesMut>}: the one-step spec from an arbitrary reader state is '
                        'not applied; the history from a fresh reader is')
        return
    rd = ck.find(lambda: ck.db.method('StreamFrameReader', 'read', trait='FrameReader'), 'StreamFrameReader::read')
    fb = ck.find(lambda: ck.db.method('Frame', 'from_buffer'), 'Frame::from_buffer')
    ck.find(lambda: ck.db.method('Frame', 'read_head'), 'Frame::read_head')
    if rd is None or fb is None:
        return
    SMAX = 2 * (12 + 300 + 64) + 64
    # (c) with the REAL decoder: can a complete frame (per read_head) fail to decode?  If it can, the summary used during
    # the exploration below returns Ok or Err, so an unwrap()/expect() on it in read() shows up as a reachable panic site.
    ex2 = ck.engine()
    st2 = State()
    B = sym_bytes(ex2, st2, 'frame_bytes', 12 + 300 + 64)
    attr_len = z3.ZeroExt(48, z3.Concat(B.at(8), B.at(9)))
    body_len = z3.ZeroExt(48, z3.Concat(B.at(10), B.at(11)))
    ex2.assume(st2, z3.And(z3.UGE(B.len, BV(12, 64)), z3.Concat(B.at(0), B.at(1), B.at(2), B.at(3)) == BV(0x5250464d, 32),
                           B.len == BV(12, 64) + attr_len + body_len))
    ex2.inputs = {'frame_bytes': B}
    fouts = ex2.call_fn(st2, fb, [B])
    failing = None
    for q in fouts:
        if q.status != 'returned':
            continue
        okq, _ = _ok_payload(q.ret)
        r_, m_ = ex2.check(q.pc, [z3.Not(okq)])
        if r_ == 'sat' and failing is None:
            m_ = ex2.small_model(q.pc, [z3.Not(okq)], m_)
            failing = ex2.model_value(m_, B)
    ck.absorb(ex2, 'Frame::from_buffer(complete frame)', fouts)
    ck.notes.append('stream-frames: a length-consistent frame that fails to decode %s' % ('exists: ' + failing['hex'] if failing else 'does not exist'))
    ex = ck.engine(loop_bound=nreads + 3)
    ex.read_budget = nreads
    ex.type_bindings.update({'T': 'Stream'})

    def fb_summary(ctx):
        b = ctx.ex.deref(ctx.st, ctx.args[0])
        fr = Agg('Frame', {0: Opaque('Option<TargetAddress>', 'addr'), 1: Int(z3.BitVec(fresh_name('sid'), 32), 32), 2: Bytes.symbolic('fbody')})
        ctx.st.trace.append(('from_buffer', b, fr))
        if failing is None:
            return C.mk_result(ctx.ex, ok=fr)
        d = z3.BitVec(fresh_name('decode_fails'), 64)
        ctx.ex.assume(ctx.st, z3.ULT(d, BV(2, 64)))
        ctx.st.env['inputs'] = dict(ctx.st.env.get('inputs', {}), failing_frame=failing)
        return Agg('Result', {}, d, {0: {0: fr}, 1: {0: Opaque('std::io::Error', 'decode')}}, ctx.ex.si.enums['Result'])
    ex.overrides.append((re.compile(r'(?:^|::)Frame::from_buffer$'), fb_summary))
    st = State()
    S = sym_bytes(ex, st, 'stream', SMAX)
    start = z3.BitVec('frame_start', 64)       # where the next frame starts in S
    pos0 = z3.BitVec('delivered', 64)          # bytes of S delivered so far
    ex.assume(st, z3.And(z3.ULE(start, pos0), z3.ULE(pos0, S.len)))
    has_carry = z3.Bool('has_carry')
    ex.assume(st, z3.Implies(z3.Not(has_carry), start == pos0))
    carry = S.slice(start, simp(pos0 - start), 'bytesmut')
    carry = C.with_cap(carry, simp(BV(131072, 64) - start))
    remaining = Agg('Option', {}, simp(z3.If(has_carry, BV(1, 64), BV(0, 64))), {1: {0: carry}}, ex.si.enums['Option'])
    reader = Agg('StreamFrameReader', {0: Stream('peer', S, pos=pos0), 1: remaining})
    rcell = st.alloc(reader)
    ex.inputs = {'stream': S, 'frame_start': start, 'delivered': pos0, 'has_carry': has_carry}
    outs = run_async(ex, st, rd, [Ref(rcell, ())])
    need = BV(12, 64) + z3.ZeroExt(48, z3.Concat(S.at(start + 8), S.at(start + 9))) + z3.ZeroExt(48, z3.Concat(S.at(start + 10), S.at(start + 11)))
    magic = z3.Concat(S.at(start), S.at(start + 1), S.at(start + 2), S.at(start + 3))
    for o, r in outs:
        if r is None or o.status != 'returned':
            continue
        rdr = o.mem[rcell]
        strm = rdr.fields[0]
        o.env['inputs'] = dict(o.env.get('inputs', {}), read_sizes=[Int(x, 64) for x in o.env.get('read_sizes', [])])
        if _is_err_concrete(r):
            if [e for e in o.trace if e[0] == 'from_buffer']:
                continue     # decode error of a complete frame, propagated
            ex.prove(o, 'C12/stream-frames/error-only-on-bad-magic', z3.And(z3.UGE(strm.pos - start, BV(12, 64)), magic != BV(0x5250464d, 32)))
            continue
        ok, opt = _ok_payload(r)
        if opt is None:
            continue
        d = opt.discr if isinstance(opt.discr, int) else concrete(opt.discr)
        calls = [e for e in o.trace if e[0] == 'from_buffer']
        if d == 0:
            ex.prove(o, 'C12/stream-frames/eof-only-after-all-bytes-delivered', strm.pos == S.len)
            ex.prove(o, 'C12/stream-frames/eof-never-drops-a-complete-frame',
                     z3.Or(z3.ULT(S.len - start, BV(12, 64)), z3.ULT(S.len - start, need)))
            ex.prove(o, 'C12/stream-frames/no-frame-fabricated-at-eof', len(calls) == 0)
            continue
        frame = opt.variants[1][0]
        ex.prove(o, 'C12/stream-frames/one-decode-per-frame', len(calls) == 1)
        if calls:
            ex.prove(o, 'C12/stream-frames/returned-frame-is-the-decoded-one', frame is calls[0][2])
            prove_bytes_eq(ex, o, 'C12/stream-frames/decoded-bytes-are-exactly-the-next-frame', calls[0][1], S.slice(start, need))
        rem = rdr.fields[1]
        rb = rem.variants.get(1, {}).get(0)
        ex.prove(o, 'C12/stream-frames/carry-over-kept', _discr(rem) == BV(1, 64))
        if rb is not None:
            prove_bytes_eq(ex, o, 'C12/stream-frames/carry-over-is-exactly-the-unread-suffix', rb, S.slice(start + need, strm.pos - (start + need)))
    ck.absorb(ex, 'StreamFrameReader::read', [o for o, _ in outs])
    ck.bounds['stream-frame-reader'] = ('one read() call from any reader state (carry-over = any delivered prefix of the rest of a stream <= %d bytes), '
                                        'delivered by <= %d further reads of arbitrary positive sizes; frames <= 376 bytes for the decode guarantee' % (SMAX, nreads))
