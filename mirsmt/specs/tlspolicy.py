"""Peer-certificate policy of the TLS / QUIC configurations the repository builds (property C07, the certificate half of it).

What rustls / webpki do with a verifier is their business (trusted).  What is decided here is which verifier the repository's
code INSTALLS for a given configuration: every function that builds a rustls ServerConfig is executed with the configured
client-certificate policy symbolic (absent / optional / required), the builder calls of rustls are contracts that record the
verifier handed over, and the obligation is that the verifier matches the policy.  Likewise for client configurations: the
accept-anything verifier is installed only when `insecure` is set."""
import re
import z3
import harness
from values import Int, Bool, UNIT, Agg, Ref, Opaque, Bytes, SeqV, BV, simp, concrete
from engine import State
import contracts as C
from specs.codec import _ok_payload, _is_err_concrete

KINDS = {0: 'none', 1: 'optional', 2: 'required'}


def _verifier(kind):
    return Agg('ClientCertVerifier', {0: Int(BV(kind, 8), 8, False)})


def _install(ex):
    def mk(kind):
        def f(ctx):
            ctx.st.trace.append(('verifier-made', kind))
            return Ref(ctx.st.alloc(_verifier(kind)), ())
        return f

    def builder(ctx):
        return Agg('ConfigBuilder', {})

    def kind_of(ctx, v):
        for _ in range(4):
            if isinstance(v, Ref):
                v = ctx.ex.deref(ctx.st, v)
        if isinstance(v, Agg) and v.name == 'ClientCertVerifier':
            return concrete(v.fields[0].t)
        return None

    def with_verifier(ctx):
        ctx.st.trace.append(('server-verifier', kind_of(ctx, ctx.args[1])))
        return Agg('ConfigBuilder', {0: ctx.args[1]})

    def no_client_auth(ctx):
        ctx.st.trace.append(('server-verifier', 0))
        return Agg('ConfigBuilder', {})

    def single_cert(ctx):
        from values import fresh_name
        ok = z3.Bool(fresh_name('cert_and_key_fit'))
        ctx.st.trace.append(('server-config-built',))
        return Agg('Result', {}, simp(z3.If(ok, BV(0, 64), BV(1, 64))), {0: {0: Agg('rustls::ServerConfig', {})}, 1: {0: Opaque('rustls::Error', 'e')}}, ctx.ex.si.enums['Result'])
    ov = [(r'(?:^|::)AllowAnyAuthenticatedClient::new$', mk(2)), (r'(?:^|::)AllowAnyAnonymousOrAuthenticatedClient::new$', mk(1)), (r'(?:^|::)NoClientAuth::new$', mk(0)),
          (r'rustls::ServerConfig::builder$', builder), (r'ServerConfig, WantsCipherSuites>::with_safe_defaults$', builder),
          (r'ServerConfig, WantsVerifier>>::with_client_cert_verifier$', with_verifier), (r'ServerConfig, WantsVerifier>>::with_no_client_auth$', no_client_auth),
          (r'ServerConfig, WantsServerCert>>::with_single_cert$', single_cert)]
    for rx, f in ov:
        ex.overrides.append((re.compile(rx), f))


def server_config_builders(db):
    return [f for f in db.fns if any('WantsServerCert>>::with_single_cert' in ln for ln in f.raw_lines)]


def spec_server_client_cert_policy(ck):
    fns = server_config_builders(ck.db)
    if not fns:
        ck.add('C07/tls/server-config-builders', 'undecided', 'anchor_missing: no function builds a rustls ServerConfig')
        return
    sfields = ck.si.structs.get('TlsServerConfig', [])
    vfields = ck.si.structs.get('TlsClientVerifyConfig', [])
    if 'client' not in sfields or 'required' not in vfields:
        ck.add('C07/tls/server-config-builders', 'undecided', 'anchor_missing: TlsServerConfig.client / TlsClientVerifyConfig.required')
        return
    label = 'C07/tls/the-client-certificate-policy-configured-is-the-verifier-installed'
    for fn in fns:
        tp = [i for i, (n, ty) in enumerate(fn.params) if 'TlsServerConfig' in ty]
        if len(tp) != 1 or len(fn.params) != 1:
            ck.add(label, 'inconclusive', '%s builds a server configuration from something else than one TlsServerConfig' % fn.name)
            continue
        ck.target(fn)
        ex = ck.engine(loop_bound=4, call_depth=8)
        ex.benign_havoc = harness.IRRELEVANT
        ex.no_inline = [re.compile(r'TlsServerConfig::certs$|root_store$|load_certs|load_keys')]
        _install(ex)
        st = State()
        has = z3.BitVec('client_section_present', 64)
        ex.assume(st, z3.ULT(has, BV(2, 64)))
        req = z3.Bool('client_required')
        vc = Agg('TlsClientVerifyConfig', dict((i, Bool(req) if n == 'required' else Opaque(n, 'cfg_' + n)) for i, n in enumerate(vfields)))
        cfg = Agg('TlsServerConfig', dict((i, (Agg('Option', {}, has, {1: {0: vc}}, ex.si.enums['Option']) if n == 'client' else
                                                (C.mk_option(ex, None) if n == 'populated' else Opaque(n, 'cfg_' + n)))) for i, n in enumerate(sfields)))
        ex.inputs = {'client_section_present': has, 'client_required': req}
        finals = ex.call_fn(st, fn, [Ref(st.alloc(cfg), (), 'mut' in fn.params[0][1])])
        n = 0
        for s in finals:
            if s.status != 'returned':
                continue
            if _is_err_concrete(s.ret):
                continue
            ok, _ = _ok_payload(s.ret)
            built = [k for k, e in enumerate(s.trace) if e[0] == 'server-config-built']
            if not built:
                continue
            n += 1
            ver = [e[1] for e in s.trace[:built[-1]] if e[0] == 'server-verifier']
            inst = ver[-1] if ver else None
            want = z3.If(has == BV(0, 64), BV(0, 8), z3.If(req, BV(2, 8), BV(1, 8)))
            s.env['inputs'] = dict(s.env.get('inputs', {}), verifier_installed=Bytes.from_py(KINDS.get(inst, 'unknown').encode(), 'str'), builder=Bytes.from_py(fn.name.encode(), 'str'))
            ex.prove(s, label, z3.Implies(ok, want == BV(inst if inst is not None else 255, 8)))
        if not n:
            ck.add('C07/tls/reachability', 'vacuous', '%s never built a configuration in the model' % fn.name)
        for f in ex.findings:
            if not hasattr(f, 'target'):
                f.target = 'server config: ' + fn.name
        ck.absorb(ex, 'server config: ' + fn.name, finals)
    ck.plans.append(_policy_replay_plan)
    ck.bounds['tls-server-policy'] = 'every function that builds a rustls ServerConfig (%s): client section absent / optional / required; certificate files load or not' % ', '.join(f.name.split('::')[-1] for f in fns)


def _policy_replay_plan(ob):
    t = ob.target or ''
    if not t.startswith('server config: '):
        return None
    if 'quic' in t:
        cases = [{'driver': 'quic_client_cert_policy', 'args': {'policy': p, 'client_cert': c}} for p, c in (('required', 'none'), ('required', 'valid'), ('optional', 'none'), ('none', 'none'))]
        return 'quic', cases, lambda o: o.get('policy') == 'required' and o.get('client_cert') == 'none' and o.get('exchanged') is True
    return None
