"""Peer-certificate policy of the TLS / QUIC configurations the repository builds (property C07, the certificate half of it).

What rustls / webpki do with a verifier is their business (trusted).  What is decided here is which verifier the repository's
code INSTALLS for a given configuration: every function that builds a rustls ServerConfig is executed with the configured
client-certificate policy symbolic (absent / optional / required), the builder calls of rustls are contracts that record the
verifier handed over, and the obligation is that the verifier matches the policy.  Likewise for client configurations: the
accept-anything verifier is installed only when `insecure` is set."""
import re
import z3
import harness
from values import Int, Bool, UNIT, Agg, Ref, Opaque, Bytes, SeqV, BV, simp, concrete
from engine import State
import contracts as C
from specs.codec import _ok_payload, _is_err_concrete

KINDS = {0: 'none', 1: 'optional', 2: 'required'}


def _verifier(kind):
    return Agg('ClientCertVerifier', {0: Int(BV(kind, 8), 8, False)})


def _install(ex):
    def mk(kind):
        def f(ctx):
            ctx.st.trace.append(('verifier-made', kind))
            return Ref(ctx.st.alloc(_verifier(kind)), ())
        return f

    def builder(ctx):
        return Agg('ConfigBuilder', {})

    def kind_of(ctx, v):
        for _ in range(4):
            if isinstance(v, Ref):
                v = ctx.ex.deref(ctx.st, v)
        if isinstance(v, Agg) and v.name == 'ClientCertVerifier':
            return concrete(v.fields[0].t)
        return None

    def with_verifier(ctx):
        ctx.st.trace.append(('server-verifier', kind_of(ctx, ctx.args[1])))
        return Agg('ConfigBuilder', {0: ctx.args[1]})

    def no_client_auth(ctx):
        ctx.st.trace.append(('server-verifier', 0))
        return Agg('ConfigBuilder', {})

    def single_cert(ctx):
        from values import fresh_name
        ok = z3.Bool(fresh_name('cert_and_key_fit'))
        ctx.st.trace.append(('server-config-built',))
        return Agg('Result', {}, simp(z3.If(ok, BV(0, 64), BV(1, 64))), {0: {0: Agg('rustls::ServerConfig', {})}, 1: {0: Opaque('rustls::Error', 'e')}}, ctx.ex.si.enums['Result'])
    ov = [(r'(?:^|::)AllowAnyAuthenticatedClient::new$', mk(2)), (r'(?:^|::)AllowAnyAnonymousOrAuthenticatedClient::new$', mk(1)), (r'(?:^|::)NoClientAuth::new$', mk(0)),
          (r'rustls::ServerConfig::builder$', builder), (r'ServerConfig, WantsCipherSuites>::with_safe_defaults$', builder),
          (r'ServerConfig, WantsVerifier>>::with_client_cert_verifier$', with_verifier), (r'ServerConfig, WantsVerifier>>::with_no_client_auth$', no_client_auth),
          (r'ServerConfig, WantsServerCert>>::with_single_cert$', single_cert)]
    for rx, f in ov:
        ex.overrides.append((re.compile(rx), f))


def server_config_builders(db):
    return [f for f in db.fns if any('WantsServerCert>>::with_single_cert' in ln for ln in f.raw_lines)]


def spec_server_client_cert_policy(ck):
    fns = server_config_builders(ck.db)
    if not fns:
        ck.add('C07/tls/server-config-builders', 'undecided', 'anchor_missing: no function builds a rustls ServerConfig')
        return
    sfields = ck.si.structs.get('TlsServerConfig', [])
    vfields = ck.si.structs.get('TlsClientVerifyConfig', [])
    if 'client' not in sfields or 'required' not in vfields:
        ck.add('C07/tls/server-config-builders', 'undecided', 'anchor_missing: TlsServerConfig.client / TlsClientVerifyConfig.required')
        return
    label = 'C07/tls/the-client-certificate-policy-configured-is-the-verifier-installed'
    for fn in fns:
        tp = [i for i, (n, ty) in enumerate(fn.params) if 'TlsServerConfig' in ty]
        if len(tp) != 1 or len(fn.params) != 1:
            ck.add(label, 'inconclusive', '%s builds a server configuration from something else than one TlsServerConfig' % fn.name)
            continue
        ck.target(fn)
        ex = ck.engine(loop_bound=4, call_depth=8)
        ex.benign_havoc = harness.IRRELEVANT
        ex.no_inline = [re.compile(r'TlsServerConfig::certs$|root_store$|load_certs|load_keys')]
        _install(ex)
        st = State()
        has = z3.BitVec('client_section_present', 64)
        ex.assume(st, z3.ULT(has, BV(2, 64)))
        req = z3.Bool('client_required')
        vc = Agg('TlsClientVerifyConfig', dict((i, Bool(req) if n == 'required' else Opaque(n, 'cfg_' + n)) for i, n in enumerate(vfields)))
        cfg = Agg('TlsServerConfig', dict((i, (Agg('Option', {}, has, {1: {0: vc}}, ex.si.enums['Option']) if n == 'client' else
                                                (C.mk_option(ex, None) if n == 'populated' else Opaque(n, 'cfg_' + n)))) for i, n in enumerate(sfields)))
        ex.inputs = {'client_section_present': has, 'client_required': req}
        finals = ex.call_fn(st, fn, [Ref(st.alloc(cfg), (), 'mut' in fn.params[0][1])])
        n = 0
        for s in finals:
            if s.status != 'returned':
                continue
            if _is_err_concrete(s.ret):
                continue
            ok, _ = _ok_payload(s.ret)
            built = [k for k, e in enumerate(s.trace) if e[0] == 'server-config-built']
            if not built:
                continue
            n += 1
            ver = [e[1] for e in s.trace[:built[-1]] if e[0] == 'server-verifier']
            inst = ver[-1] if ver else None
            want = z3.If(has == BV(0, 64), BV(0, 8), z3.If(req, BV(2, 8), BV(1, 8)))
            s.env['inputs'] = dict(s.env.get('inputs', {}), verifier_installed=Bytes.from_py(KINDS.get(inst, 'unknown').encode(), 'str'), builder=Bytes.from_py(fn.name.encode(), 'str'))
            ex.prove(s, label, z3.Implies(ok, want == BV(inst if inst is not None else 255, 8)))
        if not n:
            ck.add('C07/tls/reachability', 'vacuous', '%s never built a configuration in the model' % fn.name)
        for f in ex.findings:
            if not hasattr(f, 'target'):
                f.target = 'server config: ' + fn.name
        ck.absorb(ex, 'server config: ' + fn.name, finals)
    ck.plans.append(_policy_replay_plan)
    ck.bounds['tls-server-policy'] = 'every function that builds a rustls ServerConfig (%s): client section absent / optional / required; certificate files load or not' % ', '.join(f.name.split('::')[-1] for f in fns)


def _policy_replay_plan(ob):
    t = ob.target or ''
    if not t.startswith('server config: '):
        return None
    if 'quic' in t:
        cases = [{'driver': 'quic_client_cert_policy', 'args': {'policy': p, 'client_cert': c}} for p, c in (('required', 'none'), ('required', 'valid'), ('optional', 'none'), ('none', 'none'))]
        return 'quic', cases, lambda o: o.get('policy') == 'required' and o.get('client_cert') == 'none' and o.get('exchanged') is True
    return None


def spec_client_trust_roots(ck):
    """a connector's TLS trust: "no tunnel through an upstream whose certificate does not chain to the configured CA".  The
    store of trusted roots a TlsClientConfig builds holds the public web roots only when NO ca is configured -- a configured ca
    file from which no certificate could be read is not "no ca" (it must be refused, or trust nothing)."""
    cands = [f for f in ck.db.by_method.get('root_store', []) if f.params and 'TlsClientConfig' in f.params[0][1]]
    if len(cands) != 1:
        ck.add('C07/tls/client-trust-roots', 'undecided', 'anchor_missing: %d candidates for TlsClientConfig::root_store' % len(cands))
        return
    fn = ck.target(cands[0])
    fields = ck.si.structs.get('TlsClientConfig', [])
    if 'ca' not in fields:
        ck.add('C07/tls/client-trust-roots', 'undecided', 'anchor_missing: TlsClientConfig.ca')
        return
    label = 'C07/tls/the-public-roots-are-trusted-only-when-no-ca-is-configured'
    for ncerts in (0, 1, 2):
        ex = ck.engine(loop_bound=5, call_depth=8)
        ex.benign_havoc = harness.IRRELEVANT
        st = State()
        has = z3.BitVec('ca_configured', 64)
        ex.assume(st, z3.ULT(has, BV(2, 64)))
        loads = z3.Bool('ca_file_readable')
        cfg = Agg('TlsClientConfig', dict((i, (Agg('Option', {}, has, {1: {0: Opaque('PathBuf', 'ca-path')}}, ex.si.enums['Option']) if n == 'ca' else
                                               (Bool(z3.Bool('insecure')) if n == 'insecure' else (C.mk_option(ex, None) if n in ('auth', 'populated') else Opaque(n, 'cfg_' + n)))))
                                          for i, n in enumerate(fields)))

        def load_certs(ctx, ncerts=ncerts):
            ctx.st.trace.append(('ca-file-read',))
            items = SeqV.from_items([Opaque('Certificate', 'ca-cert-%d' % k) for k in range(ncerts)], 'Certificate', 'vec')
            return Agg('Result', {}, simp(z3.If(loads, BV(0, 64), BV(1, 64))), {0: {0: items}, 1: {0: Opaque('easy_error::Error', 'e')}}, ctx.ex.si.enums['Result'])

        def public_roots(ctx):
            ctx.st.trace.append(('public-roots-trusted',))
            return UNIT

        def add(ctx):
            ctx.st.trace.append(('root-added',))
            okb = z3.Bool('cert%d_is_a_usable_trust_anchor' % len([e for e in ctx.st.trace if e[0] == 'root-added']))
            return Agg('Result', {}, simp(z3.If(okb, BV(0, 64), BV(1, 64))), {0: {0: UNIT}, 1: {0: Opaque('webpki::Error', 'e')}}, ctx.ex.si.enums['Result'])
        for rx, f in ((r'(?:^|::)load_certs::<', load_certs), (r'RootCertStore::add_server_trust_anchors::<', public_roots), (r'RootCertStore::add$', add),
                      (r'RootCertStore::empty$', lambda ctx: Agg('RootCertStore', {}))):
            ex.overrides.append((re.compile(rx), f))
        ex.inputs = {'ca_configured': has, 'ca_file_readable': loads, 'certificates_in_ca_file': Int(BV(ncerts, 64), 64, False)}
        finals = ex.call_fn(st, fn, [Ref(st.alloc(cfg), ())])
        n = 0
        for s in finals:
            if s.status != 'returned' or _is_err_concrete(s.ret):
                continue
            ok, _ = _ok_payload(s.ret)
            n += 1
            public = ('public-roots-trusted',) in s.trace
            ex.prove(s, label, z3.Implies(z3.And(ok, z3.BoolVal(public)), has == BV(0, 64)))
            ex.prove(s, 'C07/tls/a-configured-ca-is-what-the-store-holds', z3.Implies(z3.And(ok, has == BV(1, 64)), z3.BoolVal(len([e for e in s.trace if e[0] == 'root-added']) == ncerts)))
        if not n:
            ck.add('C07/tls/client-trust-roots/reachability', 'vacuous', 'root_store never returned Ok in the model (%d certificates)' % ncerts)
        for f in ex.findings:
            if not hasattr(f, 'target'):
                f.target = 'TlsClientConfig::root_store'
        ck.absorb(ex, 'TlsClientConfig::root_store (%d certificates in the ca file)' % ncerts, finals)
    ck.plans.append(lambda ob: ('tls', {'driver': 'ca_without_certificates', 'args': {}}, lambda o: o.get('store_built') is True and (o.get('roots_trusted') or 0) > 0)
                    if (ob.target or '') == 'TlsClientConfig::root_store' else None)
    ck.bounds['tls-client-roots'] = 'ca absent / configured; the ca file unreadable or holding 0..2 certificates, each usable as a trust anchor or not'


def client_config_builders(db):
    pat = ('WantsVerifier>>::with_custom_certificate_verifier', 'WantsVerifier>>::with_root_certificates', 'DangerousClientConfig::<\'_>::set_certificate_verifier',
           'DangerousClientConfig::set_certificate_verifier')
    return [f for f in db.fns if any(p in ln for ln in f.raw_lines for p in pat) and any('ClientConfig' in ln for ln in f.raw_lines)]


def spec_client_verifier_policy(ck):
    """a connector that uses TLS without the `insecure` flag verifies its upstream: every function that builds a rustls ClientConfig
    from a TlsClientConfig installs the accept-anything verifier (TlsClientConfig::insecure_verifier) only when `insecure` is set;
    otherwise the certificate is verified against the roots root_store() returns."""
    fns = [f for f in client_config_builders(ck.db) if len(f.params) >= 1 and any('TlsClientConfig' in ty for _, ty in f.params)]
    fields = ck.si.structs.get('TlsClientConfig', [])
    if not fns or 'insecure' not in fields:
        ck.add('C07/tls/client-config-builders', 'undecided', 'anchor_missing: %d functions build a rustls ClientConfig from a TlsClientConfig' % len(fns))
        return
    label = 'C07/tls/the-accept-anything-verifier-is-installed-only-when-insecure-is-set'
    for fn in fns:
        ck.target(fn)
        ex = ck.engine(loop_bound=4, call_depth=8)
        ex.benign_havoc = harness.IRRELEVANT
        ex.no_inline = [re.compile(r'root_store$|load_certs|load_keys|TlsClientAuthConfig::certs$|insecure_verifier$')]
        st = State()
        insecure = z3.Bool('insecure')
        has_auth = z3.BitVec('client_auth_present', 64)
        ex.assume(st, z3.ULT(has_auth, BV(2, 64)))
        has_ca = z3.BitVec('ca_configured', 64)
        ex.assume(st, z3.ULT(has_ca, BV(2, 64)))
        cfg = Agg('TlsClientConfig', dict((i, (Bool(insecure) if n == 'insecure' else
                                               (Agg('Option', {}, has_auth, {1: {0: Opaque('TlsClientAuthConfig', 'auth')}}, ex.si.enums['Option']) if n == 'auth' else
                                                (Agg('Option', {}, has_ca, {1: {0: Opaque('PathBuf', 'ca-path')}}, ex.si.enums['Option']) if n == 'ca' else
                                                 (C.mk_option(ex, None) if n == 'populated' else (Bool(z3.Bool('cfg_' + n)) if n == 'disable_early_data' else Opaque(n, 'cfg_' + n)))))))
                                          for i, n in enumerate(fields)))

        def kind_of(ctx, v):
            for _ in range(4):
                if isinstance(v, Ref):
                    v = ctx.ex.deref(ctx.st, v)
            if isinstance(v, Agg) and v.name == 'ServerCertVerifier':
                return concrete(v.fields[0].t)
            return None

        def accept_all(ctx):
            return Ref(ctx.st.alloc(Agg('ServerCertVerifier', {0: Int(BV(0, 8), 8, False)})), ())

        def webpki(ctx):
            return Agg('ServerCertVerifier', {0: Int(BV(1, 8), 8, False)})

        def custom(ctx):
            ctx.st.trace.append(('client-verifier', kind_of(ctx, ctx.args[1])))
            return Agg('ConfigBuilder', {})

        def roots(ctx):
            ctx.st.trace.append(('client-verifier', 1))
            return Agg('ConfigBuilder', {})

        def set_verifier(ctx):
            ctx.st.trace.append(('client-verifier', kind_of(ctx, ctx.args[1])))
            return UNIT

        def built(ctx):
            ctx.st.trace.append(('client-config-built',))
            return Agg('rustls::ClientConfig', {})

        def built_result(ctx):
            from values import fresh_name
            ctx.st.trace.append(('client-config-built',))
            okb = z3.Bool(fresh_name('client_cert_and_key_fit'))
            return Agg('Result', {}, simp(z3.If(okb, BV(0, 64), BV(1, 64))), {0: {0: Agg('rustls::ClientConfig', {})}, 1: {0: Opaque('rustls::Error', 'e')}}, ctx.ex.si.enums['Result'])

        def sym_result(what):
            def f(ctx):
                from values import fresh_name
                okb = z3.Bool(fresh_name(what + '_ok'))
                return Agg('Result', {}, simp(z3.If(okb, BV(0, 64), BV(1, 64))), {0: {0: Opaque(what, what)}, 1: {0: Opaque('easy_error::Error', 'e')}}, ctx.ex.si.enums['Result'])
            return f
        ov = [(r'insecure_verifier$', accept_all), (r'WebPkiVerifier::new$', webpki),
              (r'rustls::ClientConfig::builder$', lambda ctx: Agg('ConfigBuilder', {})), (r'ClientConfig, WantsCipherSuites>::with_safe_defaults$', lambda ctx: Agg('ConfigBuilder', {})),
              (r'ClientConfig, WantsVerifier>>::with_custom_certificate_verifier$', custom), (r'ClientConfig, WantsVerifier>>::with_root_certificates$', roots),
              (r'DangerousClientConfig(?:::<.*>)?::set_certificate_verifier$', set_verifier), (r'ClientConfig::dangerous$', lambda ctx: Agg('DangerousClientConfig', {0: ctx.args[0]})),
              (r'ClientConfig, Wants[A-Za-z]*ClientCert>>::with_no_client_auth$', built), (r'ClientConfig, Wants[A-Za-z]*ClientCert>>::with_single_cert$', built_result),
              (r'TlsClientConfig::root_store$', sym_result('RootCertStore')), (r'TlsClientAuthConfig::certs$', sym_result('certs'))]
        for rx, f in ov:
            ex.overrides.append((re.compile(rx), f))
        ex.inputs = {'insecure': insecure, 'client_auth_present': has_auth, 'ca_configured': has_ca}
        args = []
        for (n_, ty) in fn.params:
            if 'TlsClientConfig' in ty:
                args.append(Ref(st.alloc(cfg), (), 'mut' in ty))
            elif ty.strip() == 'bool':
                args.append(Bool(z3.Bool('flag_' + str(n_))))
            else:
                args.append(Opaque(ty.strip(), 'arg'))
        finals = ex.call_fn(st, fn, args)
        n = 0
        for s in finals:
            if s.status != 'returned' or _is_err_concrete(s.ret):
                continue
            ok, _ = _ok_payload(s.ret)
            ver = [e[1] for e in s.trace if e[0] == 'client-verifier']
            if not ver or ('client-config-built',) not in s.trace:
                continue
            n += 1
            s.env['inputs'] = dict(s.env.get('inputs', {}), builder=Bytes.from_py(fn.name.encode(), 'str'))
            ex.prove(s, label, z3.Implies(z3.And(ok, z3.BoolVal(ver[-1] != 1)), insecure))
        if not n:
            ck.add('C07/tls/client-verifier/reachability', 'vacuous', '%s never built a client configuration in the model' % fn.name)
        for f in ex.findings:
            if not hasattr(f, 'target'):
                f.target = 'client config: ' + fn.name
        ck.absorb(ex, 'client config: ' + fn.name, finals)
    ck.plans.append(_client_policy_replay_plan)
    ck.bounds['tls-client-verifier'] = 'every function that builds a rustls ClientConfig from a TlsClientConfig (%s): insecure on / off, client certificate configured or not, files load or not' % ', '.join(f.name.split('::')[-1] for f in fns)


def _client_policy_replay_plan(ob):
    t = ob.target or ''
    if not t.startswith('client config: '):
        return None
    if 'quic' in t:
        cases = [{'driver': 'quic_server_cert_verification', 'args': {'insecure': i, 'ca': c}} for i, c in ((False, 'none'), (False, 'other'), (False, 'test-ca'), (True, 'none'))]
        return 'quic', cases, lambda o: o.get('insecure') is False and o.get('ca') != 'test-ca' and o.get('exchanged') is True
    return None
