import sys, os, importlib, traceback, json, time
HERE = os.path.dirname(os.path.abspath(__file__))
sys.path.insert(0, HERE)
import harness


def main(argv):
    if not argv:
        print('usage: check <Cxx> [--tier quick|thorough] | replay <path> | --setup')
        return 2
    if argv[0] == '--setup':
        import setup
        return setup.main()
    if argv[0] == 'replay':
        import replay
        return replay.main(argv[1:])
    prop = argv[0]
    tier = os.environ.get('VERIF_TIER', 'quick')
    if '--tier' in argv:
        tier = argv[argv.index('--tier') + 1]
    seed = int(os.environ.get('VERIF_SEED', '0') or 0)
    ck = harness.Check(prop, tier, seed)
    mod = importlib.import_module('specs.' + prop)
    # one spec that trips over an engine limitation must not take the other specs of the check with it
    def guard(fn):
        def wrapped(*a, **kw):
            t1 = time.time()
            try:
                return fn(*a, **kw)
            except Exception as e:  # engine bug / unsupported shape: never an alarm, but said out loud
                traceback.print_exc()
                ck.add('engine-error/' + fn.__name__, 'inconclusive', '%s: %s' % (type(e).__name__, e))
                return None
            finally:
                if os.environ.get('VERIF_TIMING'):
                    print('TIMING %s %.1fs' % (fn.__name__, time.time() - t1), flush=True)
        wrapped.__name__ = fn.__name__
        wrapped._guarded = True
        return wrapped
    for mname, m in list(sys.modules.items()):
        if mname.startswith('specs.') and m is not None:
            for an in dir(m):
                f = getattr(m, an)
                if callable(f) and an.startswith(('spec_', 'check_', 'run_all')) and getattr(f, '__module__', None) == mname and not getattr(f, '_guarded', False):
                    setattr(m, an, guard(f))
    try:
        mod.run(ck)
    except Exception as e:  # engine bug: never an alarm
        traceback.print_exc()
        ck.add('engine-error', 'inconclusive', '%s: %s' % (type(e).__name__, e))
    if ck.undecided:
        print('UNDECIDED: %s' % ck.undecided)
    known = harness.Known()
    import replay
    rc = ck.finish(known, replay.replayer)
    by = {}
    for o in ck.obs:
        by[o.status] = by.get(o.status, 0) + 1
    print('%s tier=%s obligations=%d %s wall=%.1fs' % (prop, tier, len(ck.obs), json.dumps(by), time.time() - ck.t0))
    for o in ck.obs:
        if o.status in ('inconclusive', 'undecided', 'vacuous'):
            print('  %s: %s %s' % (o.status.upper(), o.label, o.detail[:200]))
    return rc


if __name__ == '__main__':
    sys.exit(main(sys.argv[1:]))
