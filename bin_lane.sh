#!/bin/bash
# usage: bin_lane.sh <lane-dir> <seed|-> <check-id> [extra check args]
# Runs one check on a scratch worktree of /repo (made with `git -C /repo worktree add --detach <lane-dir> HEAD`) with its own work
# directory, so that experiments do not disturb /repo or /verif/.work.  <seed> = a directory name under /verif/seeded, an absolute path of a patch, or - for none.
LANE="$1"; SEED="$2"; shift 2
git -C "$LANE" checkout -q -- . || exit 9
if [ "$SEED" != "-" ]; then
  case "$SEED" in /*) P="$SEED";; *) P="/verif/seeded/$SEED/patch.diff";; esac
  git -C "$LANE" apply "$P" || exit 9
fi
VERIF_REPO="$LANE" VERIF_WORK="${LANE}_work" /verif/check "$@"; RC=$?
git -C "$LANE" checkout -q -- .
echo "lane rc=$RC"
