#!/bin/bash
# usage: bin_seed_matrix.sh [seed ...]   -- development aid: for every kept seed, apply it to /repo, run the property's quick
# check, record whether a VIOLATION line was printed, and restore /repo.  Also runs every check once on the unchanged tree.
# Never commits anything to /repo; refuses to start when /repo has local modifications.
cd /verif
if [ -n "$(git -C /repo status --porcelain)" ]; then echo "/repo is dirty; refusing"; exit 9; fi
SEEDS="$@"; [ -z "$SEEDS" ] && SEEDS=$(cd seeded && ls -d */ | tr -d /)
if [ $# -eq 0 ]; then
  for id in $(python3 -c "import json;print(' '.join(c['property_id'] for c in json.load(open('MANIFEST.json'))['checks']))" 2>/dev/null || ls evidence | sed 's/.json//'); do
    out=$(./check $id 2>&1); rc=$?
    echo "CLEAN $id rc=$rc $(echo "$out" | grep -c '^VIOLATION') violations; $(echo "$out" | grep "^$id tier" | tail -1)"
  done
fi
for s in $SEEDS; do
  id=${s%-*}
  git -C /repo apply /verif/seeded/$s/patch.diff || { echo "SEED $s: patch does not apply"; continue; }
  out=$(./check $id 2>&1); rc=$?
  git -C /repo checkout -- .
  echo "SEED $s rc=$rc violations=$(echo "$out" | grep -c '^VIOLATION') $(echo "$out" | grep "^$id tier" | tail -1 | cut -c1-160)"
done
