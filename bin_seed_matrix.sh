#!/bin/bash
# usage: bin_seed_matrix.sh [seed ...]   -- development aid: for every kept seed, apply it to a SCRATCH WORKTREE of /repo HEAD
# (never to /repo itself: a seed applied to /repo's working tree was once captured by an end-of-round snapshot commit), run the
# property's quick check there, record whether a VIOLATION line was printed.  With no argument it also runs every check once on the
# unchanged worktree.  The worktree, its work directory and its build output are removed at the end (and on interruption).
cd /verif
LANE=${VERIF_LANE:-/tmp/matrix_lane}
cleanup() { git -C /repo worktree remove --force "$LANE" 2>/dev/null; rm -rf "$LANE" "${LANE}_work"; git -C /repo worktree prune; }
trap cleanup EXIT INT TERM
cleanup
git -C /repo worktree add -q --detach "$LANE" HEAD || exit 9
export VERIF_REPO="$LANE" VERIF_WORK="${LANE}_work"
SEEDS="$@"; [ -z "$SEEDS" ] && SEEDS=$(cd seeded && ls -d */ | tr -d /)
if [ $# -eq 0 ]; then
  for id in $(python3 -c "import json;print(' '.join(c['property_id'] for c in json.load(open('MANIFEST.json'))['checks']))" 2>/dev/null || ls evidence | sed 's/.json//'); do
    out=$(./check $id 2>&1); rc=$?
    echo "CLEAN $id rc=$rc $(echo "$out" | grep -c '^VIOLATION') violations; $(echo "$out" | grep "^$id tier" | tail -1)"
  done
fi
for s in $SEEDS; do
  id=${s%-*}
  git -C "$LANE" checkout -q -- .
  git -C "$LANE" apply /verif/seeded/$s/patch.diff || { echo "SEED $s: patch does not apply"; continue; }
  out=$(./check $id 2>&1); rc=$?
  git -C "$LANE" checkout -q -- .
  echo "SEED $s rc=$rc violations=$(echo "$out" | grep -c '^VIOLATION') $(echo "$out" | grep "^$id tier" | tail -1 | cut -c1-160)"
done
