#!/bin/bash
# usage: bin_benign.sh <patch> : applies a behaviour-preserving patch to a SCRATCH WORKTREE of /repo HEAD (never to /repo itself),
# runs every check there, removes the worktree; anything but "discharged" (and C03's known finding) is a false alarm
P="$1"
LANE=${VERIF_LANE:-/tmp/benign_lane}
cleanup() { git -C /repo worktree remove --force "$LANE" 2>/dev/null; rm -rf "$LANE" "${LANE}_work"; git -C /repo worktree prune; }
trap cleanup EXIT INT TERM
cleanup
git -C /repo worktree add -q --detach "$LANE" HEAD || exit 9
git -C "$LANE" apply "$P" || exit 9
export VERIF_REPO="$LANE" VERIF_WORK="${LANE}_work"
for c in C01 C02 C03 C04 C05 C06 C07 C08 C09 C10 C11 C12 C13 C14 C15 C16 C17 C18 C19; do
  OUT=$(/verif/check $c 2>&1); RC=$?
  echo "BENIGN $(basename $P) $c rc=$RC $(echo "$OUT" | grep -E 'tier=' | cut -c1-160)"
  echo "$OUT" | grep -E "VIOLATION|UNCONFIRMED|INCONCLUSIVE|engine-error|Traceback" | cut -c1-260
done
